#!/bin/bash
# usage: selftest/seed_eval.sh <name> <dir-with-patch.diff,demo.py,meta.json> <PROP> [more PROPs...]
# 1. copies the seeded change to /verif/seeded/<name>/
# 2. confirms it in a fresh scratch worktree: 116 tests pass with it, demo fails with it, demo passes without it
# 3. applies it to /repo, runs the quick check(s), undoes it (git -C /repo checkout -- .)
set -u
NAME="$1"; SRC="$2"; shift 2
DST=/verif/seeded/$NAME
mkdir -p "$DST"
cp "$SRC/patch.diff" "$SRC/meta.json" "$DST/" 2>/dev/null
cp "$SRC"/demo* "$DST/" 2>/dev/null
W=$(mktemp -d /tmp/se-XXXXXX)
git -C /repo worktree add --detach -q "$W" HEAD >/dev/null 2>&1
R="$DST/confirm.txt"; : > "$R"
( cd "$W" && PYTHONPATH="$W" /venv/bin/python "$DST/demo.py" >/dev/null 2>&1; echo "demo on unchanged tree: exit $?" ) >> "$R"
if git -C "$W" apply "$DST/patch.diff" 2>>"$R"; then
  ( cd "$W" && PYTHONPATH="$W" /venv/bin/python -m pytest -q -p no:cacheprovider -n 8 2>&1 | tail -1 | sed 's/^/tests with change: /' ) >> "$R"
  ( cd "$W" && PYTHONPATH="$W" /venv/bin/python "$DST/demo.py" >/dev/null 2>&1; echo "demo with change: exit $?" ) >> "$R"
else
  echo "PATCH DOES NOT APPLY" >> "$R"
fi
git -C /repo worktree remove --force "$W"; rm -rf "$W"
cat "$R"
# run the check(s) against a scratch worktree carrying the change (DAGRT_REPO), so that /repo itself stays
# untouched while background sweeps are using it; equivalent to `git -C /repo apply` + run + `checkout -- .`
M=$(mktemp -d /tmp/se-XXXXXX)
git -C /repo worktree add --detach -q "$M" HEAD >/dev/null 2>&1
git -C "$M" apply "$DST/patch.diff" || { git -C /repo worktree remove --force "$M"; exit 3; }
for P in "$@"; do
  OUT=$(cd /verif && DAGRT_REPO="$M" ./check "$P" 2>&1); RC=$?
  echo "check $P quick on seeded tree: exit $RC" | tee -a "$R"
  echo "$OUT" | grep -E "mechanism=|INCONCLUSIVE" | cut -c1-240 | head -4 | tee -a "$R"
done
git -C /repo worktree remove --force "$M"; rm -rf "$M"
