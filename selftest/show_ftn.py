"""Debug helper: print DAG (and optionally the generated Fortran phase functions) of a replay witness."""
import json, sys
sys.path.insert(0, "/verif")
from vf import bootstrap; bootstrap()
from vf import prog, ftn
d = json.load(open(sys.argv[1]))
sc = d["witness"]["script"]
dag = prog.build(sc)
print(dag)
if len(sys.argv) > 2:
    g = ftn.generate(dag, sc)
    code = g.code
    i = code.index("subroutine dagrt_phase_func_")
    j = code.index("subroutine initialize")
    print(code[i:j])
