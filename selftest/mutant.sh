#!/bin/bash
# usage: selftest/mutant.sh <patch-file | -r commit> <PROP> [check args...]
# Applies a patch (or reverts a commit) in a scratch worktree of /repo (outside /repo and /verif),
# aims the check at it with DAGRT_REPO, prints the tail of the output and removes the worktree.
set -u
P="$1"; PROP="$2"; shift 2
D=$(mktemp -d /tmp/vf-mut-XXXXXX)
git -C /repo worktree add --detach -q "$D" HEAD >/dev/null 2>&1 || { echo "worktree failed"; exit 3; }
if [ "$P" = "-r" ]; then
  C="$PROP"; PROP="$1"; shift
  git -C "$D" revert --no-commit "$C" >/dev/null 2>&1 || { echo "revert failed"; git -C /repo worktree remove --force "$D"; exit 3; }
else
  git -C "$D" apply "$(realpath "$P")" || { echo "patch failed"; git -C /repo worktree remove --force "$D"; exit 3; }
fi
cd /verif
DAGRT_REPO="$D" ./check "$PROP" "$@" 2>&1 | grep -E "VIOLATION|INCONCLUSIVE|mechanism=|^\[" | cut -c1-260 | tail -8
RC=${PIPESTATUS[0]}
git -C /repo worktree remove --force "$D"
rm -rf "$D"
echo "exit=$RC"
exit $RC
