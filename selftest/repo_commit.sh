#!/bin/bash
# usage: selftest/repo_commit.sh <message-file>   -- commits /repo's working tree only if the pinned suite passes
set -e
cd /repo
OUT=$(/venv/bin/python -m pytest -q -p no:cacheprovider -n 8 2>&1 | tail -1)
echo "$OUT"
case "$OUT" in
  "116 passed"*) git commit -qa -F "$1" && git log --oneline | head -1 ;;
  *) echo "NOT COMMITTED: suite does not pass"; exit 1 ;;
esac
