#!/bin/bash
# usage: selftest/sweep_some.sh <tier> <seed> <property>...   -- like sweep.sh for the named checks only
TIER="$1"; S="$2"; shift 2
for P in "$@"; do
  T0=$(date +%s.%N)
  OUT=$(./check $P --tier $TIER --seed $S 2>&1); RC=$?
  T1=$(date +%s.%N)
  printf "%s tier=%s seed=%s exit=%s wall=%.1fs %s\n" $P $TIER $S $RC $(echo "$T1 - $T0" | bc) "$(echo "$OUT" | grep -E 'VIOLATION|INCONCLUSIVE' | head -2 | tr '\n' ' ' | cut -c1-200)"
done
