#!/bin/bash
# re-confirm and re-evaluate every seeded change with the check of the property it breaks; rebuild INDEX.md
cd /verif
for D in seeded/C*/; do
  N=$(basename $D); P=${N:0:3}
  selftest/seed_eval.sh $N /verif/seeded/$N $P > /dev/null 2>&1
  echo "$N: $(grep -E '^check' seeded/$N/confirm.txt | tr '\n' ' ')"
done
/venv/bin/python - <<'PY'
import json,glob,os,re
rows=[]
for d in sorted(glob.glob('/verif/seeded/C*/')):
    n=os.path.basename(d.rstrip('/'))
    meta=json.load(open(d+'meta.json'))
    conf=open(d+'confirm.txt').read()
    meta['confirmation']={'how':'selftest/seed_eval.sh: fresh scratch worktree of /repo HEAD; pinned 116 tests with the change; demo with and without the change; then ./check <property> (quick tier) with DAGRT_REPO aimed at a scratch worktree carrying the change',
                          'log':conf.splitlines()}
    json.dump(meta,open(d+'meta.json','w'),indent=1)
    m=re.search(r'check (C\d+) quick on seeded tree: exit (\d)',conf)
    mech=[l for l in conf.splitlines() if 'mechanism=' in l]
    rows.append((n,meta.get('property'),meta.get('needs','')[:160].replace('\n',' ').replace('|','/'),
                 ('caught (exit 1)' if m and m.group(2)=='1' else
                  ('not caught by the check of this property: see evaluation_note in meta.json' if meta.get('evaluation_note') else 'MISSED')), (mech[0].split('mechanism=')[1].split(' ')[0] if mech else '')))
with open('/verif/seeded/INDEX.md','w') as f:
    f.write('# Seeded changes (independently produced, confirmed, evaluated)\n\nEach directory: `patch.diff` (against /repo HEAD at the time of the last re-confirmation), the demonstration `demo.py`, `meta.json` (property, what it needs to manifest, what was run), `confirm.txt`.\n\n| seeded change | property | needs | quick check | first mechanism reported |\n|---|---|---|---|---|\n')
    for r in rows: f.write('| %s | %s | %s | %s | `%s` |\n'%r)
print(open('/verif/seeded/INDEX.md').read()[-1500:])
PY
