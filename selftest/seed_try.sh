#!/bin/bash
# usage: selftest/seed_try.sh <seeded-name> <PROP> [seed...]   -- run a quick check against a scratch worktree carrying the seeded change
N="$1"; P="$2"; shift 2
M=$(mktemp -d /tmp/se-XXXXXX); git -C /repo worktree add --detach -q "$M" HEAD
git -C "$M" apply /verif/seeded/$N/patch.diff || { git -C /repo worktree remove --force "$M"; exit 3; }
for s in "${@:-0}"; do (cd /verif && DAGRT_REPO="$M" ./check "$P" --seed $s | grep -E "mechanism|tier=|INCON" | cut -c1-260); done
git -C /repo worktree remove --force "$M"; rm -rf "$M"
