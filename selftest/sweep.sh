#!/bin/bash
# usage: selftest/sweep.sh <tier> <seed>...   -- runs every check, prints one line per check
TIER="$1"; shift
for S in "$@"; do
  for i in $(seq -w 1 20); do
    P="C$i"
    T0=$(date +%s.%N)
    OUT=$(./check $P --tier $TIER --seed $S 2>&1); RC=$?
    T1=$(date +%s.%N)
    printf "%s tier=%s seed=%s exit=%s wall=%.1fs %s\n" $P $TIER $S $RC $(echo "$T1 - $T0" | bc) "$(echo "$OUT" | grep -E 'VIOLATION|INCONCLUSIVE' | head -2 | tr '\n' ' ' | cut -c1-200)"
  done
done
