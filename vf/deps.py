"""Idempotent, file-locked offline install of icontract + deal into
/verif/.deps (git-ignored).  A fresh restore has no .deps, so every check
calls ensure() itself."""
import fcntl
import os
import subprocess
import sys

from vf import VERIF_ROOT

DEPS = os.path.join(VERIF_ROOT, ".deps")
WHEELS = "/opt/veriftools/wheels"
STAMP = os.path.join(DEPS, ".installed")


def ensure():
    if os.path.exists(STAMP):
        return True
    os.makedirs(DEPS, exist_ok=True)
    with open(os.path.join(VERIF_ROOT, ".deps.lock"), "w") as lk:
        fcntl.flock(lk, fcntl.LOCK_EX)
        if os.path.exists(STAMP):
            return True
        env = dict(os.environ, PIP_NO_INDEX="1", PIP_DISABLE_PIP_VERSION_CHECK="1")
        r = subprocess.run(
            [sys.executable, "-m", "pip", "install", "-q", "--no-index",
             "--find-links", WHEELS, "--target", DEPS, "icontract", "deal"],
            env=env, capture_output=True, text=True, timeout=600)
        if r.returncode != 0:
            sys.stderr.write(r.stdout + r.stderr)
            return False
        with open(STAMP, "w") as f:
            f.write("ok\n")
    return True
