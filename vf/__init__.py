"""Runtime-monitoring framework for inducer/dagrt (see /verif/DESIGN.md)."""
import os
import sys

VERIF_ROOT = os.path.dirname(os.path.dirname(os.path.abspath(__file__)))
REPO_ROOT = os.environ.get("DAGRT_REPO", "/repo")


def bootstrap():
    """Put the repository under test and the vendored third-party deps first
    on sys.path and assert that `dagrt` really is imported from there."""
    os.environ.setdefault("DAGRT_VERIF", "1")
    deps = os.path.join(VERIF_ROOT, ".deps")
    for p in (deps, REPO_ROOT):
        if p in sys.path:
            sys.path.remove(p)
        sys.path.insert(0, p)
    import dagrt
    here = os.path.realpath(os.path.dirname(dagrt.__file__))
    want = os.path.realpath(os.path.join(REPO_ROOT, "dagrt"))
    if here != want:
        raise RuntimeError(f"dagrt imported from {here}, expected {want}")
