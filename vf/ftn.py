"""Fortran side of the harness: G_prog profile 'ftn' (scripts inside the subset
the Fortran target supports), generation of the module with the real
generator, a driver program written from the script, sanitizer / valgrind /
trace builds, and the comparison with the interpreter (C03, C12, C15)."""
import itertools
import math
import os
import re

import numpy as np

from vf import fort, prog
from vf.rseq import copyval, is_persistent
from vf.sexpr import from_jsonable, values_equal

VT = "vt"          # user type identifier
VTN = 3            # its length
VT2 = "wt"
VT2N = 2
# a STRUCTURE user type with a pointer member ('at' sorts before the flat array types); on the Python side
# (interpreter, reference) its values are plain vectors [s, q1, q2, q3]: all operations on it are member-wise
AT = "at"
ATN = 4
RHS_OF = {VT: "<func>rhs", VT2: "<func>rhs2", AT: "<func>rhsa"}
LOCALS_OF = {VT: ["u", "v", "k1", "k2", "ytmp"], VT2: ["u2", "v2"], AT: ["ua", "va"]}
SUFFIX_OF = {VT: "", VT2: "2", AT: "a"}
TYPES_MODULE = """module vftypes
  type fast_t
    real(8) :: s
    real(8), dimension(:), pointer :: q
  end type
end module
"""


# {{{ generator

LONG_P = "<p>accumulated_estimate_of_the_local_truncation_error_of_the_embedded_pair"
LONG_LOCALS = ["a_rather_long_name_for_a_temporary_variable_of_the_method_0123456789",
               "a_rather_long_name_for_a_temporary_variable_of_the_method_0123456789_b",
               "the_scaled_difference_between_the_two_solutions_of_the_embedded_pair_x"]


class FGen:
    """Scripts for the Fortran subset.  Variable kinds are static:
    nums (real scalars), ints (integer-valued reals used as bounds/subscripts),
    arrs {name: length}, uts {name: type id}, bools."""

    def __init__(self, rng, memory_bias=False, two_types=False, allow_end=True, nphases=None,
                 neq=True, max_ops=10, struct_type=False):
        self.struct_type = struct_type
        self.rng = rng
        self.memory_bias = memory_bias
        self.two_types = two_types
        self.allow_end = allow_end
        self.nphases = nphases
        self.neq = neq
        self.max_ops = max_ops
        self.cnt = itertools.count()
        self.long_persistent = rng.random() < 0.3
        self.stages = memory_bias and rng.random() < 0.5      # every phase opens with a Runge-Kutta stage pattern
        self.stage_tt = rng.choice([["var", "<t>"], ["+", ["var", "<t>"], ["var", "<dt>"]]])
        # open finding: <builtin>elementwise_abs of an ARRAY returns a 1-based array in Fortran (pinned by
        # the repository's own test_elementwise_abs); such results are subscripted only in a rare class
        self.allow_onebased_subscript = rng.random() < 0.05
        self.onebased = set()
        self.funcs = {
            "<func>rhs": {"kind": "ut", "type": VT, "args": ["t", "y"], "coef": [0.5, 1.0, -2.0], "nres": 1},
            "<func>sf": {"kind": "scalar", "args": ["a0", "a1"], "coef": [1.0, 0.5, 2.0], "nres": 1},
            "<func>sf2": {"kind": "scalar", "args": ["a0", "a1"], "coef": [0.5, 2.0, -0.5], "nres": 2},
            # two user-type results at once: 'lo, hi <- split(t, y)'
            "<func>split": {"kind": "ut", "type": VT, "args": ["t", "y"], "coef": [0.25, 0.5, -1.0], "nres": 2},
        }
        if struct_type:
            self.funcs["<func>rhsa"] = {"kind": "ut", "type": AT, "args": ["t", "y"], "coef": [0.5, 1.0, -1.5],
                                        "nres": 1}
        if two_types:
            self.funcs["<func>rhs2"] = {"kind": "ut", "type": VT2, "args": ["t", "y"], "coef": [1.0, -1.0, 0.5],
                                        "nres": 1}

    # -- expressions
    def const(self):
        # (2 and 2.0, 4 and 4.0: equal values that are written differently in the generated text)
        return ["num", self.rng.choice([2, 3, 0.5, 1.5, -1.5, 0.25, -2, 4, 2.5, 2.0, 4.0, 3.0])]

    def num_leaf(self, sc):
        rng = self.rng
        pool = sc["nums"]
        if rng.random() < 0.3 or not pool:
            return self.const()
        return ["var", rng.choice(pool)]

    def num_expr(self, sc, d):
        rng = self.rng
        r = rng.random()
        if d <= 0 or r < 0.22:
            return self.num_leaf(sc)
        if r < 0.4:
            ch = [self.num_expr(sc, d - 1) for _ in range(rng.choice([2, 2, 3]))]
            out = [ch[0]] + [c if c[0] not in ("+", "-") else self.num_leaf(sc) for c in ch[1:]]
            return ["+"] + out
        if r < 0.52:
            ch = [self.num_expr(sc, d - 1) for _ in range(2)]
            out = [ch[0]] + [c if c[0] != "*" else self.num_leaf(sc) for c in ch[1:]]
            return ["*"] + out
        if r < 0.58:
            b = self.num_expr(sc, d - 1)
            return ["-", self.num_expr(sc, d - 1), b if b[0] not in ("+", "-") else self.num_leaf(sc)]
        if r < 0.63:
            return ["/", self.num_expr(sc, d - 1), rng.choice([["num", 2], ["num", 4], ["num", -2], ["num", 0.5]])]
        if r < 0.7:
            base = self.num_expr(sc, d - 1)
            if rng.random() < 0.3:
                base = ["num", rng.choice([-1.5, -2, 2, 0.5])]
            if rng.random() < 0.2:
                base = ["**", self.num_leaf(sc), ["num", 2]]     # left-nested power
            return ["**", base, ["num", rng.choice([2, 3])]]
        if r < 0.75:
            return [rng.choice(["min", "max"]), self.num_expr(sc, d - 1), self.num_expr(sc, d - 1)]
        if r < 0.84:
            if rng.random() < 0.35:
                # a branch that is DIRECTLY a call whose arguments are plain variables / literals
                c = ["call", "<func>sf", [self.num_leaf(sc), self.num_leaf(sc)], {}]
                other = self.num_expr(sc, d - 1)
                cond = ["cmp", rng.choice(["<", ">"]), self.num_leaf(sc), self.num_leaf(sc)]
                return ["if", cond, other, c] if rng.random() < 0.6 else ["if", cond, c, other]
            if rng.random() < 0.3:
                # an elif ladder: the else branch is itself a conditional expression (two or three rungs)
                def cmp_():
                    return ["cmp", rng.choice(["<", ">", "<=", ">="]), self.num_leaf(sc), self.num_leaf(sc)]
                e = ["if", cmp_(), self.num_expr(sc, max(0, d - 2)), self.num_expr(sc, max(0, d - 2))]
                for _ in range(rng.choice([1, 1, 2])):
                    e = ["if", cmp_(), self.num_expr(sc, max(0, d - 2)), e]
                return e
            return ["if", self.bool_expr(sc, d - 1), self.num_expr(sc, d - 1), self.num_expr(sc, d - 1)]
        if r < 0.9 and sc["arrs"]:
            a = rng.choice(sorted(sc["arrs"]))
            if rng.random() < 0.5 and (a not in self.onebased or self.allow_onebased_subscript):
                return ["sub", ["var", a], self.index_for(sc, sc["arrs"][a])]
            return ["call", rng.choice(["<builtin>norm_2", "<builtin>len"]), [["var", a]], {}]
        if r < 0.95 and [x for x, t in sc["uts"].items() if t != AT]:
            u = rng.choice(sorted(x for x, t in sc["uts"].items() if t != AT))
            return ["call", rng.choice(["<builtin>norm_2", "<builtin>norm_2", "<builtin>len"]), [["var", u]], {}]
        args = [self.num_expr(sc, d - 1), self.num_expr(sc, d - 1)]
        q = rng.random()
        if q < 0.25:
            return ["call", "<func>sf", [args[0]], {"a1": args[1]}]
        if q < 0.4:
            return ["call", "<func>sf", [], {"a1": args[1], "a0": args[0]}]      # written out of alphabetical order
        return ["call", "<func>sf", args, {}]

    def index_for(self, sc, length):
        rng = self.rng
        cands = [c for c, (lo, hi) in sc["counters"].items() if lo >= 0 and hi <= length]
        if cands and rng.random() < 0.6:
            return ["var", rng.choice(cands)]
        return ["num", rng.randrange(length)]

    def bool_expr(self, sc, d):
        rng = self.rng
        r = rng.random()
        if sc["bools"] and r < 0.1:
            return ["var", rng.choice(sc["bools"])]
        if d <= 0 or r < 0.6:
            ops = ["<", "<=", ">", ">=", "=="] + (["!="] if self.neq else [])
            return ["cmp", rng.choice(ops), self.num_expr(sc, max(d - 1, 0)), self.num_expr(sc, max(d - 1, 0))]
        if r < 0.75:
            a, b = self.bool_expr(sc, d - 1), self.bool_expr(sc, d - 1)
            if rng.random() < 0.4:
                a = ["or", a, self.bool_expr(sc, 0)]       # '(a or b) and c': needs its parentheses
            return ["and", a, b] if rng.random() < 0.5 else ["and", b, a]
        if r < 0.88:
            return ["or", self.bool_expr(sc, d - 1), self.bool_expr(sc, d - 1)]
        if r < 0.95:
            return ["not", self.bool_expr(sc, d - 1)]
        return ["call", "<builtin>isnan", [self.num_expr(sc, d - 1)], {}]

    def ut_expr(self, sc, d, tid):
        rng = self.rng
        same = [u for u, t in sc["uts"].items() if t == tid]
        if not same:
            return None
        r = rng.random()
        if d <= 0 or r < 0.2:
            return ["var", rng.choice(same)]                 # plain move
        if r < 0.45:
            return ["+", ["var", rng.choice(same)], ["*", self.num_expr(sc, d - 1), ["var", rng.choice(same)]]]
        if r < 0.6:
            return ["*", rng.choice([["num", 2], ["num", 0.5], ["num", -1.5]]), ["var", rng.choice(same)]]
        if r < 0.7:
            return ["-", ["var", rng.choice(same)], ["var", rng.choice(same)]]
        if r < 0.85:
            f = RHS_OF[tid]
            arg = ["var", rng.choice(same)]
            q = rng.random()
            if q < 0.45:
                # stage-value argument 'rhs(t + c*dt, y + dt*k1)': isolated into a user-type temporary whose
                # statement id ('tmp', 'tmp_0', ...) is only unique within its phase
                arg = ["+", ["var", rng.choice(same)], ["*", rng.choice([["var", "<dt>"], ["num", 0.5]]),
                                                       ["var", rng.choice(same)]]]
            elif q < 0.55:
                arg = self.ut_expr(sc, d - 1, tid)
            return ["call", f, [self.num_expr(sc, d - 1), arg], {}]
        if r < 0.89 and d >= 1:
            f = RHS_OF[tid]
            return ["+", ["var", rng.choice(same)],
                    ["*", rng.choice([["var", "<dt>"], ["num", 0.5]]),
                     ["call", f, [self.num_leaf(sc), ["var", rng.choice(same)]], {}]]]
        if r < 0.93 and tid != AT:
            return ["call", "<builtin>elementwise_abs", [["var", rng.choice(same)]], {}]
        if r < 0.97 and d >= 1:
            # conditional expression over user-type values (plain moves or expressions in the branches)
            a, b = rng.choice(same), rng.choice(same)
            tb = ["var", a] if rng.random() < 0.6 else ["*", ["num", 0.5], ["var", a]]
            eb = ["var", b] if rng.random() < 0.6 else ["+", ["var", b], ["var", a]]
            if rng.random() < 0.4:
                # ... or directly a call ('k <- rhs(t, y) if c else rhs(t, u)')
                eb = ["call", RHS_OF[tid], [["var", "<t>"], ["var", b]], {}]
                if rng.random() < 0.5:
                    tb = ["call", RHS_OF[tid], [["var", "<t>"], ["var", a]], {}]
            return ["if", ["cmp", rng.choice(["<", ">"]), self.num_leaf(sc), self.num_leaf(sc)], tb, eb]
        return ["/", ["var", rng.choice(same)], ["num", 2]]

    def arr_expr(self, sc, d, length):
        rng = self.rng
        same = [a for a, l in sc["arrs"].items() if l == length]
        if not same:
            return None
        r = rng.random()
        twos = [a for a, l in sc["arrs"].items() if l == 2]
        fours = [a for a, l in sc["arrs"].items() if l == 4]
        if d > 0 and rng.random() < 0.35:
            r = 0.8 + 0.12 * rng.random()         # linear algebra
        if d <= 0 or r < 0.3:
            return ["*", ["num", rng.choice([2, 0.5, -1.5])], ["var", rng.choice(same)]]
        if r < 0.6:
            return ["+", ["var", rng.choice(same)], ["*", self.num_leaf(sc), ["var", rng.choice(same)]]]
        if r < 0.8:
            return ["-", ["var", rng.choice(same)], ["var", rng.choice(same)]]
        if r < 0.86 and ((length == 2 and fours) or (length == 4 and twos)):
            # products whose left factor is not square: (1x2)(2x2) -> 1x2, (2x1)(1x2) -> 2x2
            if length == 2:
                return ["call", "<builtin>matmul", [["var", rng.choice(same)], ["var", rng.choice(fours)],
                                                     ["num", 2], ["num", 2]], {}]
            return ["call", "<builtin>matmul", [["var", rng.choice(twos)], ["var", rng.choice(twos)],
                                                 ["num", 1], ["num", 2]], {}]
        if r < 0.88:
            # transposing a row or a column (n x 1 <-> 1 x n): the entries stay where they are
            return ["call", "<builtin>transpose", [["var", rng.choice(same)], ["num", rng.choice([1, length])]], {}]
        if length == 4 and r < 0.92:
            a, b = rng.choice(same), rng.choice(same)
            q = rng.random()
            if q < 0.4:
                return ["call", "<builtin>matmul", [["var", a], ["var", b], ["num", 2], ["num", 2]], {}]
            if q < 0.6:
                return ["call", "<builtin>linear_solve", [["var", a], ["var", b], ["num", 2], ["num", 2]], {}]
            return ["call", "<builtin>transpose", [["var", a], ["num", 2]], {}]
        return ["call", "<builtin>elementwise_abs", [["var", rng.choice(same)]], {}]

    # -- statements
    def fresh(self, pref):
        return f"{pref}{next(self.cnt)}"

    def s(self, *e):
        if self.rng.random() < 0.5:
            return 0
        from vf.sexpr import srcable
        return 1 if all(x is None or srcable(x) for x in e) else 0

    def body(self, sc, persist, names, cur, budget, depth, in_cond):
        rng = self.rng
        ops = []
        while budget[0] > 0:
            budget[0] -= 1
            r = rng.random()
            if self.memory_bias and self.allow_end and not in_cond and rng.random() < 0.12:
                # the adaptive pattern: a user-type temporary is made, the step may fail / switch, and the
                # temporary's last use is an unguarded statement AFTER the possible early exit
                tid = rng.choice(sorted(set(sc["uts"].values())))
                same = [u for u, t in sc["uts"].items() if t == tid]
                tmp = rng.choice(["ynew", "yalt"]) + SUFFIX_OF[tid]
                ops.append(["assign", tmp, None,
                            ["+", ["var", rng.choice(same)], ["*", ["var", "<dt>"], ["var", rng.choice(same)]]], [], 0])
                sc["uts"][tmp] = tid
                thr = rng.choice([1.0, 1.75, 2.25, 0.25])
                cond = ["cmp", rng.choice([">", "<"]), ["var", "<state>s"], ["num", thr]]
                end = rng.choice([["fail"], ["switch", rng.choice(names)], ["restart"]])
                pre = []
                if rng.random() < 0.5:
                    pre = [["assign", "<dt>", None, ["*", ["var", "<dt>"], ["num", 0.5]], [], 0]]
                ops.append(["if", cond, pre + [end], [], None, 0])
                tgt = [u for u, t in persist["uts"].items() if t == tid]
                ops.append(["assign", rng.choice(tgt), None, ["var", tmp], [], 0])
                continue
            if self.memory_bias and (rng.random() < 0.1 or (self.stages and not in_cond and not ops)):
                # Runge-Kutta stage pattern with the same stage names in every phase: the second stage's
                # argument is an expression in k1 (isolated by the passes into 'tmp*' statements whose ids
                # repeat from phase to phase); k1 may or may not be needed again by the final combination
                tid = VT
                same = [u for u, t in sc["uts"].items() if t == tid]
                y = rng.choice(same)
                a = rng.choice([["var", "<dt>"], ["*", ["var", "<dt>"], ["num", 0.5]], ["num", 0.5]])
                tt = rng.choice([["var", "<t>"], ["+", ["var", "<t>"], ["var", "<dt>"]]])
                if self.stages and not ops:
                    tt = self.stage_tt          # the same stage times in every phase
                ops.append(["call", ["k1"], "<func>rhs", [["var", "<t>"], ["var", y]], {}, 0])
                ops.append(["call", ["k2"], "<func>rhs", [tt, ["+", ["var", y], ["*", a, ["var", "k1"]]]], {}, 0])
                sc["uts"]["k1"] = tid
                sc["uts"]["k2"] = tid
                tgt = rng.choice([u for u, t in persist["uts"].items() if t == tid] + ["ytmp"])
                comb = rng.choice([["var", "k2"], ["+", ["var", "k1"], ["var", "k2"]],
                                   ["+", ["*", ["num", 0.5], ["var", "k1"]], ["*", ["num", 0.5], ["var", "k2"]]]])
                ops.append(["assign", tgt, None, ["+", ["var", y], ["*", ["var", "<dt>"], comb]], [], 0])
                sc["uts"][tgt] = tid
                continue
            if self.memory_bias and rng.random() < 0.07:
                # counted loop around user-type calls: 'acc <- rhs(t + c*i, rhs(t, y)) [i=0..n]' -- the call
                # temporaries made by the passes are first mentioned INSIDE the loop body
                tid = VT
                same = [u for u, t in sc["uts"].items() if t == tid]
                u = rng.choice(same)
                lhs = rng.choice(["u", "v", "ytmp", "acc"])
                if lhs in sc["nums"] or lhs in sc["bools"] or lhs in sc["arrs"]:
                    continue
                c = rng.choice(["i", "j"])
                if rng.random() < 0.3 and not any("knest" in sc[k] for k in ("nums", "bools", "arrs", "uts")):
                    # a loop NEST whose body is the last use of a temporary made just before it
                    # ('knest <- rhs(t, u); acc <- acc + dt*knest [i=0..2, j=0..2]')
                    c2 = "j" if c == "i" else "i"
                    ops.append(["call", ["knest"], "<func>rhs", [["var", "<t>"], ["var", u]], {}, 0])
                    base = ["var", lhs] if sc["uts"].get(lhs) == tid else ["var", u]
                    ops.append(["assign", lhs, None, ["+", base, ["*", ["var", "<dt>"], ["var", "knest"]]],
                                [[c, ["num", 0], ["num", rng.choice([2, 3])]],
                                 [c2, ["num", 0], ["num", rng.choice([1, 2, 3])]]], 0])
                    sc["uts"][lhs] = tid
                    continue
                tt = ["+", ["var", "<t>"], ["*", ["num", rng.choice([0.25, 0.5])], ["var", c]]]
                q = rng.random()
                inner = (["call", "<func>rhs", [["var", "<t>"], ["var", u]], {}] if q < 0.5 else
                         ["var", lhs] if (q < 0.7 and sc["uts"].get(lhs) == tid) else
                         ["+", ["var", u], ["*", ["var", c], ["var", rng.choice(same)]]])
                rhs = ["call", "<func>rhs", [tt, inner], {}]
                q2 = rng.random()
                if q2 < 0.3:
                    rhs = ["+", ["var", u], ["*", ["num", 0.5], rhs]]
                elif q2 < 0.6:
                    # a conditional expression over user-type values inside the loop: one branch is a plain move
                    # of a loop-invariant temporary ('acc <- (rhs(..) if i < 1 else k1) [i=0..3]')
                    locs = [x for x in same if not x.startswith("<")]
                    other = rng.choice(locs or same)
                    if rng.random() < 0.6 and "kinv" not in sc["nums"] and "kinv" not in sc["arrs"]:
                        # ... a temporary made just for this loop, whose last use is the move inside the loop
                        other = "kinv"
                        ops.append(["call", ["kinv"], "<func>rhs", [["var", "<t>"], ["var", u]], {}, 0])
                        sc["uts"]["kinv"] = tid
                    rhs = ["if", ["cmp", "<", ["var", c], ["num", 1]], rhs, ["var", other]]
                    ops.append(["assign", lhs, None, rhs, [[c, ["num", 0], ["num", rng.choice([3, 4])]]], 0])
                    sc["uts"][lhs] = tid
                    if other == "kinv":
                        del sc["uts"]["kinv"]      # (not used again)
                    continue
                ops.append(["assign", lhs, None, rhs, [[c, ["num", 0], ["num", rng.choice([1, 2, 3])]]], 0])
                sc["uts"][lhs] = tid
                continue
            if self.memory_bias and rng.random() < 0.45:
                r = 0.3 + 0.25 * rng.random()     # user-type traffic
            if rng.random() < 0.05 and not any(n in sc["bools"] or n in sc["uts"] or n in sc["arrs"]
                                               for n in ("wn", "tot", "mom")) and "wn" not in sc["nums"]:
                # neighbouring loops over the SAME counter and bounds where a later loop needs what an earlier one
                # only completes in its last trip: fill, sum up, normalise in place, take a moment, look backwards
                c = rng.choice(["i", "j"])
                n = rng.choice([3, 4])
                lo, hi = ["num", 0], ["num", n]
                ops.append(["call", ["wn"], "<builtin>array", [["num", n]], {}, 0])
                ops.append(["assign", "wn", ["var", c], ["+", ["*", ["num", rng.choice([0.5, 1.5, 2])], ["var", c]],
                                                       ["num", rng.choice([1, 2.5])]], [[c, lo, hi]], 0])
                ops.append(["assign", "tot", None, ["num", 0.5], [], 0])
                ops.append(["assign", "tot", None, ["+", ["var", "tot"], ["sub", ["var", "wn"], ["var", c]]],
                            [[c, lo, hi]], 0])
                ops.append(["assign", "wn", ["var", c], ["/", ["sub", ["var", "wn"], ["var", c]], ["var", "tot"]],
                            [[c, lo, hi]], 0])
                ops.append(["assign", "mom", None, ["num", 0], [], 0])
                back = ["sub", ["var", "wn"], ["-", ["num", n - 1], ["var", c]]]
                ops.append(["assign", "mom", None, ["+", ["var", "mom"], ["*", ["var", c], back]], [[c, lo, hi]], 0])
                sc["arrs"]["wn"] = n
                for nm in ("tot", "mom"):
                    if nm not in sc["nums"]:
                        sc["nums"].append(nm)
                tgt = rng.choice(persist["nums"]) if persist["nums"] else None
                if tgt and tgt not in sc["bools"] and tgt not in sc["arrs"] and tgt not in sc["uts"]:
                    ops.append(["assign", tgt, None, ["+", ["var", "mom"], ["*", ["num", 2], ["var", "tot"]]], [], 0])
                    if tgt not in sc["nums"]:
                        sc["nums"].append(tgt)
                continue
            if rng.random() < 0.05 and not any(n in sc["nums"] or n in sc["bools"] or n in sc["uts"]
                                               for n in ("la", "lb", "lc", "ld")):
                # products whose left factor is not square: (1x2)(2x2) -> 1x2 and (2x1)(1x2) -> 2x2, read back
                # element by element
                c = rng.choice(["i", "j"])
                for nm, ln in (("la", 2), ("lb", 4)):
                    ops.append(["call", [nm], "<builtin>array", [["num", ln]], {}, 0])
                    ops.append(["assign", nm, ["var", c], ["+", ["*", ["num", rng.choice([0.5, 1.5, -1])], ["var", c]],
                                                         self.num_leaf(sc)], [[c, ["num", 0], ["num", ln]]], 0])
                    sc["arrs"][nm] = ln
                ops.append(["call", ["lc"], "<builtin>matmul", [["var", "la"], ["var", "lb"], ["num", 2], ["num", 2]],
                            {}, 0])
                ops.append(["call", ["ld"], "<builtin>matmul", [["var", "la"], ["var", "la"], ["num", 1], ["num", 2]],
                            {}, 0])
                sc["arrs"]["lc"] = 2
                sc["arrs"]["ld"] = 4
                tgt = rng.choice(persist["nums"]) if persist["nums"] and rng.random() < 0.6 else "x"
                if tgt not in sc["bools"] and tgt not in sc["arrs"] and tgt not in sc["uts"]:
                    ops.append(["assign", tgt, None,
                                ["+", ["sub", ["var", "lc"], ["num", rng.randrange(2)]],
                                 ["*", ["num", 0.5], ["sub", ["var", "ld"], ["num", rng.randrange(4)]]],
                                 ["call", "<builtin>len", [["var", "ld"]], {}]], [], 0])
                    if tgt not in sc["nums"]:
                        sc["nums"].append(tgt)
                continue
            if rng.random() < 0.04 and not any(n in sc["nums"] or n in sc["bools"] or n in sc["uts"]
                                               for n in ("pa", "pb", "a2")):
                # an array variable that is already allocated is assigned, as a whole, array expressions of
                # DIFFERENT lengths and is subscripted afterwards (persistent arrays are restored at the end)
                la, lb = rng.sample([2, 3, 4, 5], 2)
                for nm, ln in (("pa", la), ("pb", lb)):
                    c = rng.choice(["i", "j"])
                    ops.append(["call", [nm], "<builtin>array", [["num", ln]], {}, 0])
                    ops.append(["assign", nm, ["var", c], ["+", ["*", ["num", 0.5], ["var", c]], self.num_leaf(sc)],
                                [[c, ["num", 0], ["num", ln]]], 0])
                    sc["arrs"][nm] = ln
                tgt = rng.choice(persist["arrs"]) if persist["arrs"] and rng.random() < 0.5 else "a2"
                if tgt == "a2":
                    ops.append(["assign", tgt, None, ["*", ["num", 2], ["var", "pa"]], [], 0])
                ops.append(["assign", tgt, None, rng.choice([["*", ["num", -1.5], ["var", "pb"]],
                                                             ["+", ["var", "pb"], ["var", "pb"]]]), [], 0])
                self.onebased.discard(tgt)
                x = rng.choice(["x", "z", "q"])
                if x not in sc["bools"] and x not in sc["arrs"] and x not in sc["uts"]:
                    ops.append(["assign", x, None, ["+", ["sub", ["var", tgt], ["num", lb - 1]],
                                                    ["*", ["num", 2], ["sub", ["var", tgt], ["num", 0]]]], [], 0])
                    if x not in sc["nums"]:
                        sc["nums"].append(x)
                    ops.append(["assign", "<state>s", None, ["+", ["var", "<state>s"], ["*", ["num", 0.25], ["var", x]]],
                                [], 0])
                if tgt == "a2":
                    sc["arrs"][tgt] = lb
                else:
                    n = persist["arrlen"][tgt]
                    ops.append(["call", [tgt], "<builtin>array", [["num", n]], {}, 0])
                    ops.append(["assign", tgt, ["var", "i"], ["*", ["num", 0.25], ["var", "i"]],
                                [["i", ["num", 0], ["num", n]]], 0])
                continue
            if r < 0.03:
                # two results, both self-dependent: 'x, z <- sf2(x, z)'
                cands = [n for n in sc["nums"] if n not in ("<t>", "<dt>")]
                if len(cands) >= 2:
                    a, b = rng.sample(cands, 2)
                    ops.append(["call", [a, b], "<func>sf2", [["var", a], ["var", b]], {}, self.s()])
                continue
            if r < 0.06:
                # looped assignment to a scalar: 'w <- w + 0.25*i [i=0..n]' and mirrored spellings
                cands = [n for n in sc["nums"] if n not in ("<t>", "<dt>", "nb", "mb")]
                if cands:
                    w = rng.choice(cands)
                    c = rng.choice(["i", "j"])
                    lo = rng.randint(0, 1)
                    hi = rng.choice([lo, lo + 1, lo + 3, 4])
                    k = ["num", rng.choice([0.25, 0.5, 1.5, -0.5])]
                    if rng.random() < 0.35:
                        # two loops and a recurrence that does not commute: the order of the nest is observable
                        c2 = "j" if c == "i" else "i"
                        term = ["+", ["var", c], ["*", ["num", 2], ["var", c2]]]
                        rhs = rng.choice([["+", ["*", ["num", 0.5], ["var", w]], term], ["-", term, ["var", w]]])
                        inner_hi = ["num", rng.choice([2, 3])] if rng.random() < 0.7 else ["+", ["var", c], ["num", 1]]
                        ops.append(["assign", w, None, rhs,
                                    [[c, ["num", lo], ["num", lo + rng.choice([2, 3])]], [c2, ["num", 0], inner_hi]], 0])
                        continue
                    term = rng.choice([["*", k, ["var", c]], ["*", ["var", c], k], ["/", ["var", c], ["num", 4]]])
                    rhs = ["+", ["var", w], term] if rng.random() < 0.7 else term
                    ops.append(["assign", w, None, rhs, [[c, ["num", lo], ["num", hi]]], self.s(rhs)])
                continue
            if r < 0.2:
                rhs = self.num_expr(sc, rng.choice([1, 2, 2, 3]))
                lhs = rng.choice(persist["nums"]) if rng.random() < 0.4 else rng.choice(
                    ["x", "y1", "z", "w", "tmp", "q", "X", "Y1", "tmp_0", "local_x", "lploc_x", "ifthenelse_result",
                     ] + LONG_LOCALS)
                if lhs in sc["bools"] or lhs in sc["arrs"] or lhs in sc["uts"]:
                    continue
                ops.append(["assign", lhs, None, rhs, [], self.s(rhs)])
                if lhs not in sc["nums"]:
                    sc["nums"].append(lhs)
            elif r < 0.3:
                # boolean variable
                lhs = rng.choice(["flag", "ok"])
                if lhs in sc["nums"]:
                    continue
                rhs = self.bool_expr(sc, 1)
                ops.append(["assign", lhs, None, rhs, [], self.s(rhs)])
                if lhs not in sc["bools"]:
                    sc["bools"].append(lhs)
            elif r < 0.55:
                # user-type assignment
                tid = rng.choice(sorted(set(sc["uts"].values())))
                if tid == VT and rng.random() < 0.12:
                    # a call with several user-type assignees
                    same = [u for u, t in sc["uts"].items() if t == VT]
                    names2 = rng.sample(LOCALS_OF[VT], 2) if len(LOCALS_OF[VT]) >= 2 else None
                    if names2 and same and not any(n in sc["nums"] or n in sc["bools"] or n in sc["arrs"]
                                                   for n in names2):
                        ops.append(["call", names2, "<func>split", [["var", "<t>"], ["var", rng.choice(same)]], {}, 0])
                        for n in names2:
                            sc["uts"][n] = VT
                        continue
                rhs = self.ut_expr(sc, rng.choice([0, 1, 1, 2]), tid)
                cands = [u for u, t in persist["uts"].items() if t == tid]
                locs = LOCALS_OF[tid]
                lhs = rng.choice(cands) if cands and rng.random() < 0.35 else rng.choice(locs)
                same_t = [u for u, t in sc["uts"].items() if t == tid]
                if sc["uts"].get(lhs) == tid and rng.random() < 0.1:
                    # a tableau-driven update with a vanishing weight, 'u <- u + 0*k': the builder's flattening
                    # leaves the plain self-copy 'u <- u'
                    ops.append(["assign", lhs, None, ["+", ["var", lhs], ["*", ["num", 0], ["var", rng.choice(same_t)]]],
                                [], 0])
                    continue
                if rhs == ["var", lhs]:
                    continue
                if rhs[0] == "call":
                    ops.append(["call", [lhs], rhs[1], rhs[2], rhs[3], self.s(*rhs[2])])
                else:
                    ops.append(["assign", lhs, None, rhs, [], self.s(rhs)])
                sc["uts"][lhs] = tid
            elif r < 0.65:
                # new array + fill
                n = rng.choice([2, 3, 4])
                lhs = rng.choice(persist["arrs"]) if persist["arrs"] and rng.random() < 0.3 else rng.choice(["a", "b", "arr"])
                if lhs in persist["arrlen"]:
                    n = persist["arrlen"][lhs]
                c = rng.choice(["i", "j"])
                ops.append(["call", [lhs], "<builtin>array", [["num", n]], {}, self.s()])
                # (the fill value must not read the freshly made array itself: <builtin>array gives
                # uninitialised storage)
                sc2 = dict(sc, counters=dict(sc["counters"], **{c: (0, n)}),
                           arrs={k: v for k, v in sc["arrs"].items() if k != lhs})
                val = self.num_expr(sc2, rng.choice([0, 1, 2]))
                if rng.random() < 0.3:
                    val = ["+", ["*", ["num", 0.5], ["var", c]], val if val[0] not in ("+", "-") else self.num_leaf(sc)]
                ops.append(["assign", lhs, ["var", c], val, [[c, ["num", 0], ["num", n]]], self.s(val)])
                sc["arrs"][lhs] = n
            elif r < 0.73 and sc["arrs"]:
                a = rng.choice(sorted(sc["arrs"]))
                rhs = self.arr_expr(sc, 1, sc["arrs"][a])
                lhs = rng.choice(["a2", "b2"])
                if rhs[0] == "call":
                    ops.append(["call", [lhs], rhs[1], rhs[2], rhs[3], self.s(*rhs[2])])
                    if rhs[1] == "<builtin>elementwise_abs":
                        self.onebased.add(lhs)
                else:
                    ops.append(["assign", lhs, None, rhs, [], self.s(rhs)])
                    pass      # (not path-sensitive: once one-based, always treated as such)
                sc["arrs"][lhs] = sc["arrs"][a]
            elif r < 0.76 and sc["arrs"]:
                # element loop: zero-/one-trip, variable bound, self-dependent update
                a = rng.choice(sorted(sc["arrs"]))
                if a in self.onebased and not self.allow_onebased_subscript:
                    continue
                n = sc["arrs"][a]
                lo = rng.randrange(n)
                hi = rng.choice([lo, lo + 1, n, rng.randint(lo, n)])
                c = rng.choice(["i", "j"])
                hi_e = ["num", hi]
                if rng.random() < 0.35:
                    bn = rng.choice(["nb", "mb"])
                    if bn in sc["bools"] or bn in sc["arrs"] or bn in sc["uts"]:
                        continue
                    ops.append(["assign", bn, None, ["num", hi], [], 0])
                    if bn not in sc["nums"]:
                        sc["nums"].append(bn)
                    hi_e = ["var", bn]
                sc2 = dict(sc, counters=dict(sc["counters"], **{c: (lo, hi)}))
                val = self.num_expr(sc2, 1)
                if rng.random() < 0.5:
                    val = ["+", ["sub", ["var", a], ["var", c]], val if val[0] not in ("+", "-") else self.num_leaf(sc)]
                ops.append(["assign", a, ["var", c], val, [[c, ["num", lo], hi_e]], self.s(val)])
            elif r < 0.84:
                # yield of a user-type value
                tid = rng.choice(sorted(set(sc["uts"].values())))
                same = [u for u, t in sc["uts"].items() if t == tid]
                expr = ["var", rng.choice(same)] if rng.random() < 0.6 else self.ut_expr(sc, 1, tid)
                from vf.sexpr import has
                if has(expr, {"call"}):
                    # subset boundary: isolate_function_calls rewrites Assign statements only, so the Fortran
                    # target does not take calls inside a yield expression (the generator stops with a KeyError)
                    expr = ["var", rng.choice(same)]
                time = rng.choice([["var", "<t>"], ["+", ["var", "<t>"], ["var", "<dt>"]], ["num", 0]])
                ops.append(["yield", expr, tid, time, rng.choice(["final", "t0"]), self.s(expr)])
            elif r < 0.93 and depth < 2:
                cond = self.bool_expr(sc, rng.choice([0, 1, 2]))
                sc_then = self.copy_sc(sc)
                nb = [max(1, min(budget[0], rng.randint(1, 3)))]
                budget[0] -= nb[0]
                then = self.body(sc_then, persist, names, cur, nb, depth + 1, True)
                els = None
                if rng.random() < 0.5:
                    sc_else = self.copy_sc(sc)
                    nb = [max(1, min(budget[0], rng.randint(1, 3)))]
                    budget[0] -= nb[0]
                    els = self.body(sc_else, persist, names, cur, nb, depth + 1, True)
                    self.meet(sc, sc_then, sc_else)
                ops.append(["if", cond, then, [], els, self.s(cond)])
            elif self.allow_end and in_cond:
                q = rng.random()
                ops.append(["fail"] if q < 0.4 else ["switch", rng.choice(names)] if q < 0.7 else ["restart"])
        return ops

    @staticmethod
    def copy_sc(sc):
        return {"nums": list(sc["nums"]), "bools": list(sc["bools"]), "arrs": dict(sc["arrs"]),
                "uts": dict(sc["uts"]), "counters": dict(sc["counters"])}

    @staticmethod
    def meet(sc, a, b):
        sc["nums"] = [n for n in a["nums"] if n in b["nums"]]
        sc["bools"] = [n for n in a["bools"] if n in b["bools"]]
        sc["arrs"] = {n: l for n, l in a["arrs"].items() if b["arrs"].get(n) == l}
        sc["uts"] = {n: t for n, t in a["uts"].items() if b["uts"].get(n) == t}

    def script(self):
        rng = self.rng
        nph = self.nphases or rng.choice([1, 1, 2, 3])
        # a start-up phase and a steady phase that are both bare stage patterns (Heun for start-up, midpoint
        # afterwards, ...): each phase runs, and they hand over to each other
        bare = self.stages and self.nphases is None and rng.random() < 0.5
        if bare:
            nph = rng.choice([2, 2, 3])
        names = rng.sample(["main", "init", "primary", "stage2"], nph)
        persist = {"nums": ["<state>s", "<p>k"], "uts": {"<state>y": VT}, "arrs": [], "arrlen": {}}
        if rng.random() < 0.5:
            persist["uts"]["<p>u"] = VT
        if self.struct_type:
            persist["uts"]["<state>za"] = AT
        if self.two_types:
            persist["uts"]["<state>w"] = VT2
        if rng.random() < 0.4:
            persist["arrs"].append("<p>arr")
            persist["arrlen"]["<p>arr"] = rng.choice([2, 3])
        state = {"s": rng.choice([1.5, -0.5, 2.0]),
                 "y": ["array", [rng.choice([1.0, 2.0, -0.5, 0.25]) for _ in range(VTN)]]}
        if self.struct_type:
            state["za"] = ["array", [rng.choice([1.0, -2.0, 0.5, 0.25]) for _ in range(ATN)]]
        if self.two_types:
            state["w"] = ["array", [rng.choice([1.0, -2.0, 0.5]) for _ in range(VT2N)]]
        phases = []
        multistep = rng.random() < 0.12
        for pi, name in enumerate(names):
            sc = {"nums": ["<t>", "<dt>", "<state>s"], "bools": [], "arrs": {}, "uts": {"<state>y": VT},
                  "counters": {}}
            if self.struct_type:
                sc["uts"]["<state>za"] = AT
            if self.two_types:
                sc["uts"]["<state>w"] = VT2
            body = []
            if pi == 0:
                body.append(["assign", "<p>k", None, self.const(), [], 0])
                if "<p>u" in persist["uts"]:
                    body.append(["assign", "<p>u", None, ["*", ["num", 0.5], ["var", "<state>y"]], [], 0])
                for a in persist["arrs"]:
                    n = persist["arrlen"][a]
                    body.append(["call", [a], "<builtin>array", [["num", n]], {}, 0])
                    body.append(["assign", a, ["var", "i"], ["*", ["num", 0.5], ["var", "i"]],
                                 [["i", ["num", 0], ["num", n]]], 0])
            sc["nums"].append("<p>k")
            if "<p>u" in persist["uts"]:
                sc["uts"]["<p>u"] = VT
            for a in persist["arrs"]:
                sc["arrs"][a] = persist["arrlen"][a]
            budget = [rng.randint(2, self.max_ops)]
            if bare:
                budget = [1]
            elif self.stages and rng.random() < 0.6:
                # short phases around the stage pattern: the statements the passes create then get the same ids
                # ('tmp', 'tmp_0', ...) in every phase
                budget = [rng.randint(1, 3)]
            body += self.body(sc, persist, names, name, budget, 0, False)
            if multistep:
                # two-step start-up: the previous state only exists from the second step on, and the branch of the
                # conditional expression that uses it (inside a call argument) is not to be evaluated before
                arg = ["*", ["num", 0.5], ["+", ["var", "<state>y"], ["var", "<p>yold"]]]
                e = ["if", ["cmp", ">", ["var", "<t>"], ["num", 0.6]],
                     ["call", "<func>rhs", [["var", "<t>"], arg], {}],
                     rng.choice([["call", "<func>rhs", [["var", "<t>"], ["var", "<state>y"]], {}], ["var", "<state>y"]])]
                body.append(["assign", "kb", None, e, [], 0])
                body.append(["assign", "<p>yold", None, ["var", "<state>y"], [], 0])
                body.append(["assign", "<state>y", None,
                             ["+", ["var", "<state>y"], ["*", ["num", 0.25], ["var", "kb"]]], [], 0])
            if rng.random() < 0.2:
                # expression grid: many independent results of boolean / arithmetic expression shapes, observed
                # after every run call (the valuation of the atoms changes from step to step with <state>s, <t>)
                for k in range(rng.randint(4, 10)):
                    if rng.random() < 0.7:
                        e = ["if", self.bool_expr(sc, rng.choice([1, 2, 2, 3])), ["num", 1.5], ["num", -2]]
                    else:
                        e = self.num_expr(sc, 3)
                    body.append(["assign", f"<p>g{pi}_{k}", None, e, [], self.s(e)])
            if self.two_types and rng.random() < 0.5:
                # the same dimension-dependent built-ins applied to BOTH user types (different lengths)
                for comp, nm in (("<state>y", "y"), ("<state>w", "w")):
                    fn = "<builtin>norm_2"      # (norm_1 / norm_inf have no Fortran code generator)
                    body.append(["assign", f"<p>n{pi}_{nm}", None,
                                 ["+", ["call", fn, [["var", comp]], {}],
                                  ["call", "<builtin>len", [["var", comp]], {}]], [], 0])
            if self.long_persistent and pi == 0:
                body.append(["assign", LONG_P, None, ["+", ["var", "<state>s"], ["num", 1]], [], 0])
            # kinds of persistent state must be inferable: whole-variable assignments
            body.append(["assign", "<state>s", None, ["+", ["var", "<state>s"], ["var", "<dt>"]], [], 0])
            k = self.fresh("kk") if rng.random() < 0.5 else rng.choice(["k1", "k2", "u"])
            body.append(["call", [k], "<func>rhs", [["var", "<t>"], ["var", "<state>y"]], {}, 0])
            body.append(["assign", "<state>y", None, ["+", ["var", "<state>y"], ["*", ["var", "<dt>"], ["var", k]]], [], 0])
            if self.struct_type and rng.random() < 0.35:
                # the structure-typed component is read elementwise, handed new storage by a move, and read
                # elementwise again in the same phase
                za = ["var", "<state>za"]
                body.append(["assign", "ua", None, ["+", ["*", ["num", 0.5], za], ["*", ["num", 0.25], za]], [], 0])
                body.append(["assign", "<state>za", None, ["var", "ua"], [], 0])
                body.append(["assign", "va", None, ["*", ["num", 0.5], za], [], 0])
                body.append(["assign", "<state>za", None, ["+", ["var", "va"], ["*", ["num", 0.5], za]], [], 0])
            if self.struct_type:
                ka = self.fresh("kz") if rng.random() < 0.5 else "ua"
                body.append(["call", [ka], "<func>rhsa", [["var", "<t>"], ["var", "<state>za"]], {}, 0])
                body.append(["assign", "<state>za", None,
                             ["+", ["var", "<state>za"], ["*", ["var", "<dt>"], ["var", ka]]], [], 0])
            if self.two_types:
                k2 = self.fresh("kw")
                body.append(["call", [k2], "<func>rhs2", [["var", "<t>"], ["var", "<state>w"]], {}, 0])
                body.append(["assign", "<state>w", None, ["+", ["var", "<state>w"], ["*", ["num", 0.5], ["var", k2]]], [], 0])
            if rng.random() < 0.45:
                # every component is reported at the end of the step (several output slots per method)
                body.append(["yield", ["var", "<state>y"], VT, ["var", "<t>"], "final", 0])
                if self.struct_type:
                    body.append(["yield", ["var", "<state>za"], AT, ["var", "<t>"], "final", 0])
                if self.two_types:
                    body.append(["yield", ["var", "<state>w"], VT2, ["var", "<t>"], rng.choice(["final", "t0"]), 0])
            if rng.random() < 0.8:
                body.append(["assign", "<t>", None, ["+", ["var", "<t>"], ["var", "<dt>"]], [], 0])
            phases.append({"name": name, "next": names[(pi + 1) % nph] if bare else rng.choice(names), "body": body})
        return {"phases": phases, "initial": names[0], "state": state, "t0": rng.choice([0.0, 0.5]),
                "dt0": rng.choice([0.5, 0.25]), "funcs": self.funcs, "run": {"max_steps": rng.randint(1, 5)},
                "event_cap": 100, "ncalls": rng.randint(1, 5),
                "subscripts_elementwise_abs_result": bool(self.allow_onebased_subscript and self.onebased),
                # (every fourth module: the flat user vectors are declared as columns (n, 1) or rows (1, n))
                "ut_shape": rng.choice([None, None, None, None, None, None, "col", "row"])}

# }}}


# {{{ registry, Python functions, user type map

def registry(script):
    import dagrt.codegen.fortran as f
    from dagrt.data import Scalar
    from dagrt.function_registry import base_function_registry, register_function, register_ode_rhs
    freg = base_function_registry
    for name, spec in script["funcs"].items():
        c = spec["coef"]
        if spec["kind"] == "ut" and spec.get("nres", 1) > 1:
            from dagrt.data import UserType
            n = spec["nres"]
            freg = register_function(freg, name, ("t", "y"), default_dict={},
                                     result_names=tuple(f"r{i}" for i in range(n)),
                                     result_kinds=(UserType(spec["type"]),) * n)
            lines = [f"                ${{r{i}}} = {fnum(c[0] + i)} + {fnum(c[1])}*${{t}} + {fnum(c[2])}*${{y}}"
                     for i in range(n)]
            freg = freg.register_codegen(name, "fortran", f.CallCode("\n" + "\n".join(lines) + "\n                "))
            continue
        if spec["kind"] == "ut":
            freg = register_ode_rhs(freg, spec["type"], identifier=name, input_names=("y",))
            if spec["type"] == AT:
                freg = freg.register_codegen(name, "fortran", f.CallCode(f"""
                    ${{result}}%s = {fnum(c[0])} + {fnum(c[1])}*${{t}} + {fnum(c[2])}*${{y}}%s
                    ${{result}}%q = {fnum(c[0])} + {fnum(c[1])}*${{t}} + {fnum(c[2])}*${{y}}%q
                    """))
                continue
            freg = freg.register_codegen(name, "fortran", f.CallCode(f"""
                ${{result}} = {fnum(c[0])} + {fnum(c[1])}*${{t}} + {fnum(c[2])}*${{y}}
                """))
        else:
            n = spec.get("nres", 1)
            freg = register_function(freg, name, tuple(spec["args"]), default_dict={},
                                     result_names=tuple(f"r{i}" for i in range(n)),
                                     result_kinds=(Scalar(True),) * n)
            lines = []
            for i in range(n):
                body = " + ".join([fnum(c[0] + i)] + [f"{fnum(ci)}*${{{a}}}" for ci, a in zip(c[1:], spec["args"])])
                lines.append(f"                ${{r{i}}} = {body}")
            freg = freg.register_codegen(name, "fortran", f.CallCode("\n" + "\n".join(lines) + "\n                "))
    return freg


def fnum(v):
    s = repr(float(v)).replace("e", "d")
    if "d" not in s:
        s += "d0"
    return f"({s})"


def ut_dims(script, n):
    """Shape of a flat user vector of n entries in the Fortran type map: script["ut_shape"] makes it a column
    (n, 1) or a row (1, n) -- a multi-dimensional user type whose axes have different extents."""
    sh = script.get("ut_shape")
    return (n, 1) if sh == "col" else (1, n) if sh == "row" else (n,)


def user_type_map(script):
    import dagrt.codegen.fortran as f
    d1, d2 = ut_dims(script, VTN), ut_dims(script, VT2N)
    m = {VT: f.ArrayType(d1, f.BuiltinType("real (kind=8)"),
                         index_vars="ivt" if len(d1) == 1 else ("ivt", "jvt"))}
    if any(s.get("type") == VT2 for s in script["funcs"].values()):
        m[VT2] = f.ArrayType(d2, f.BuiltinType("real (kind=8)"),
                             index_vars="iwt" if len(d2) == 1 else ("iwt", "jwt"))
    if has_struct(script):
        m[AT] = f.StructureType("fast_t", (
            ("s", f.BuiltinType("real (kind=8)")),
            ("q", f.PointerType(f.ArrayType((ATN - 1,), f.BuiltinType("real (kind=8)"), index_vars="iat")))))
    return m


def has_struct(script):
    return any(s.get("type") == AT for s in script["funcs"].values())


def python_functions(script, wrap=None):
    out = {}
    for name, spec in script["funcs"].items():
        out[name] = prog.make_py_function(name, spec, wrap)
    return out

# }}}


# {{{ interpreter side, one step per Fortran run() call

def interpreter_steps(dag, script, ncalls):
    """Returns list of per-call records: dict(persist, next_phase, yields so far per component, outcome)."""
    from dagrt.exec_numpy import FailStepException, NumpyInterpreter, TransitionEvent
    interp = NumpyInterpreter(dag, python_functions(script))
    ctx = {k: copyval(from_jsonable(v)) for k, v in script["state"].items()}
    interp.set_up(script["t0"], script["dt0"], ctx)
    last = {}
    out = []
    for _ in range(ncalls):
        outcome = "completed"
        try:
            for ev in interp.run_single_step():
                if type(ev).__name__ == "StateComputed":
                    last[ev.component_id] = (ev.t, ev.time_id, copyval(ev.state_component))
        except FailStepException:
            outcome = "failed"
        except TransitionEvent as t:
            interp.next_phase = t.next_phase
        except Exception as ex:      # noqa: BLE001
            out.append({"crash": (type(ex).__name__, str(ex)[:200])})
            return out
        out.append({"persist": {k: copyval(v) for k, v in interp.context.items() if is_persistent(k)},
                    "next_phase": interp.next_phase, "ret": dict(last), "outcome": outcome})
    return out

# }}}


# {{{ code generation + driver

class Generated:
    pass


def generate(dag, script, trace=False, module="vfmod", hooks=False, instrument=False):
    import dagrt.codegen.fortran as f
    freg = registry(script)
    kw = {}
    if hooks:
        from dagrt.function_registry import register_function
        for hook in ("notify_pre_state_update", "notify_post_state_update"):
            freg = register_function(freg, hook, ("updated_component",))
            freg = freg.register_codegen(hook, "fortran", f.CallCode("""
                ! ${updated_component}
                """))
        kw = dict(emit_instrumentation=True, timing_function="second", call_before_state_update="notify_pre_state_update",
                  call_after_state_update="notify_post_state_update")
    elif instrument:
        kw = dict(emit_instrumentation=True, timing_function="second")
    if has_struct(script):
        kw["module_preamble"] = """
            use vftypes
            """
    cg = f.CodeGenerator(module, user_type_map=user_type_map(script), function_registry=freg,
                         trace=trace, **kw)
    code = cg(dag)
    g = Generated()
    g.code = code
    g.module = module
    g.names = {}
    g.cg = cg
    return g


def persistent_kinds(dag, script):
    """name -> 'num' | 'ut:<n>' | 'arr' for the persistent variables, from the script (static)."""
    kinds = {"<t>": "num", "<dt>": "num"}
    names = set()
    for ph in script["phases"]:
        prog.all_names(ph["body"], names)
    for n in sorted(names):
        if not is_persistent(n) or n in kinds:
            continue
        if n in ("<state>y", "<p>u", "<p>yold"):
            kinds[n] = f"ut:{VTN}"
        elif n == "<state>w":
            kinds[n] = f"ut:{VT2N}"
        elif n == "<state>za":
            kinds[n] = "st"
        elif n == "<p>arr":
            kinds[n] = "arr"
        else:
            kinds[n] = "num"
    return kinds


def driver_source(g, dag, script, ncalls, heap_state=False):
    nm = g.cg.name_manager
    kinds = persistent_kinds(dag, script)
    phases = sorted(dag.phases)
    comps = sorted({op_comp for op_comp in yield_components(script)})
    L = []
    A = L.append
    A("program vfdriver")
    if has_struct(script):
        A("  use vftypes")
    A(f"  use {g.module}, only: dagrt_state_type, vf_initialize => initialize, vf_run => run, &")
    A("    vf_shutdown => shutdown")
    A("  implicit none")
    A("  type(dagrt_state_type), target :: st")
    A("  type(dagrt_state_type), pointer :: stp")
    A("  integer :: k")
    init_args = ["dagrt_state=stp", f"dagrt_t={fnum(script['t0'])}", f"dagrt_dt={fnum(script['dt0'])}"]
    for sname, v in sorted(script["state"].items()):
        ir = "<state>" + sname
        if ir not in kinds:
            continue
        fn = nm.name_global(ir)
        val = from_jsonable(v)
        if kinds[ir] == "st":
            A(f"  type(fast_t) :: in_{fn}")
            init_args.append(f"{fn}=in_{fn}")
        elif isinstance(val, np.ndarray):
            dims = ut_dims(script, len(val)) if kinds[ir].startswith("ut:") else (len(val),)
            A(f"  real(8), dimension({', '.join(map(str, dims))}) :: in_{fn}")
            init_args.append(f"{fn}=in_{fn}")
        else:
            init_args.append(f"{fn}={fnum(val)}")
    if heap_state:
        # the state object lives in heap memory that is not zero (ASan fills fresh blocks with 0xbe; without it a
        # dirtied block is recycled): pointer members have no defined association status before initialize
        A("  block")
        A("    integer(1), allocatable :: dirt(:)")
        A("    allocate(dirt(8192))")
        A("    dirt = 90_1")
        A("    deallocate(dirt)")
        A("  end block")
        A("  allocate(stp)")
    else:
        A("  stp => st")
    for sname, v in sorted(script["state"].items()):
        ir = "<state>" + sname
        if ir not in kinds:
            continue
        fn = nm.name_global(ir)
        val = from_jsonable(v)
        if kinds[ir] == "st":
            A(f"  allocate(in_{fn}%q({ATN - 1}))")
            A(f"  in_{fn}%s = {fnum(val.tolist()[0])}")
            A(f"  in_{fn}%q = (/ " + ", ".join(fnum(x) for x in val.tolist()[1:]) + " /)")
        elif isinstance(val, np.ndarray):
            lit = "(/ " + ", ".join(fnum(x) for x in val.tolist()) + " /)"
            dims = ut_dims(script, len(val)) if kinds[ir].startswith("ut:") else (len(val),)
            if len(dims) > 1:
                lit = f"reshape({lit}, (/ {', '.join(map(str, dims))} /))"
            A(f"  in_{fn} = {lit}")
    A("  call vf_initialize(" + ", &\n    ".join(init_args) + ")")
    A(f"  do k = 1, {ncalls}")
    A("    call vf_run(dagrt_state=stp)")
    A("    write(*,'(A,I0)') 'VFSTEP ', k")
    A("    write(*,'(A,I0)') 'VFNEXT ', stp%dagrt_next_phase")
    for ir, kd in sorted(kinds.items()):
        fn = nm.name_global(ir)
        tag = ir
        if kd == "num":
            A(f"    write(*,'(A,1X,ES25.17E3)') 'VFNUM {tag}', stp%{fn}")
        elif kd == "st":
            A(f"    if (associated(stp%{fn})) then")
            A(f"      write(*,'(A,*(1X,ES25.17E3))') 'VFVEC {tag}', stp%{fn}%s, stp%{fn}%q")
            A("    else")
            A(f"      write(*,'(A)') 'VFUNSET {tag}'")
            A("    end if")
        elif kd.startswith("ut"):
            A(f"    if (associated(stp%{fn})) then")
            A(f"      write(*,'(A,*(1X,ES25.17E3))') 'VFVEC {tag}', stp%{fn}")
            A("    else")
            A(f"      write(*,'(A)') 'VFUNSET {tag}'")
            A("    end if")
        else:
            A(f"    if (allocated(stp%{fn})) then")
            A(f"      write(*,'(A,*(1X,ES25.17E3))') 'VFVEC {tag}', stp%{fn}")
            A("    else")
            A(f"      write(*,'(A)') 'VFUNSET {tag}'")
            A("    end if")
    for c in comps:
        rs, rt, ri = (nm.name_global(f"<ret_state>{c}"), nm.name_global(f"<ret_time>{c}"),
                      nm.name_global(f"<ret_time_id>{c}"))
        A(f"    if (associated(stp%{rs})) then")
        if c == AT:
            A(f"      write(*,'(A,*(1X,ES25.17E3))') 'VFRET {c}', stp%{rt}, stp%{ri}, stp%{rs}%s, stp%{rs}%q")
        else:
            A(f"      write(*,'(A,*(1X,ES25.17E3))') 'VFRET {c}', stp%{rt}, stp%{ri}, stp%{rs}")
        A("    else")
        A(f"      write(*,'(A)') 'VFNORET {c}'")
        A("    end if")
    A("  end do")
    A("  call vf_shutdown(dagrt_state=stp)")
    if heap_state:
        A("  deallocate(stp)")
    for sname, v in sorted(script["state"].items()):
        if kinds.get("<state>" + sname) == "st":
            A(f"  deallocate(in_{nm.name_global('<state>' + sname)}%q)")
    A("  write(*,'(A)') 'VFDONE'")
    A("end program")
    return "\n".join(L) + "\n"


def yield_components(script):
    out = set()

    def walk(ops):
        for op in ops:
            if op[0] == "yield":
                out.add(op[2])
            elif op[0] == "if":
                walk(op[2])
                walk(op[3])
                if op[4] is not None:
                    walk(op[4])
    for ph in script["phases"]:
        walk(ph["body"])
    return out


def time_ids(script):
    out = set()

    def walk(ops):
        for op in ops:
            if op[0] == "yield":
                out.add(op[4])
            elif op[0] == "if":
                walk(op[2])
                walk(op[3])
                if op[4] is not None:
                    walk(op[4])
    for ph in script["phases"]:
        walk(ph["body"])
    return sorted(out)


def parse_dump(stdout):
    """-> list of per-call dicts {next, vars{name: value or None}, ret{comp: (t, tid, vec) or None}}, done flag."""
    steps = []
    cur = None
    done = False
    for ln in stdout.splitlines():
        ln = ln.strip()
        if ln.startswith("VFSTEP"):
            cur = {"vars": {}, "ret": {}}
            steps.append(cur)
        elif ln.startswith("VFDONE"):
            done = True
        elif cur is None:
            continue
        elif ln.startswith("VFNEXT"):
            cur["next"] = int(ln.split()[1])
        elif ln.startswith("VFNUM"):
            p = ln.split()
            cur["vars"][p[1]] = fl(p[2])
        elif ln.startswith("VFVEC"):
            p = ln.split()
            cur["vars"][p[1]] = np.array([fl(x) for x in p[2:]])
        elif ln.startswith("VFUNSET"):
            cur["vars"][ln.split()[1]] = None
        elif ln.startswith("VFRET"):
            p = ln.split()
            cur["ret"][p[1]] = (fl(p[2]), fl(p[3]), np.array([fl(x) for x in p[4:]]))
        elif ln.startswith("VFNORET"):
            cur["ret"][ln.split()[1]] = None
    return steps, done


def fl(s):
    try:
        return float(s)
    except ValueError:
        s2 = s.lower()
        if "nan" in s2:
            return float("nan")
        if "inf" in s2:
            return float("-inf") if s2.startswith("-") else float("inf")
        return float("nan")

# }}}


def compare_with_interpreter(steps, ref, dag, script):
    """First difference between the Fortran dump and the interpreter records, or None."""
    phases = sorted(dag.phases)
    tids = time_ids(script)
    for i, (fs, rs) in enumerate(zip(steps, ref)):
        if "crash" in rs:
            return None
        if phases[fs["next"]] != rs["next_phase"] if 0 <= fs["next"] < len(phases) else True:
            return ("next-phase", f"after run call {i + 1}: Fortran next phase "
                    f"{phases[fs['next']] if 0 <= fs['next'] < len(phases) else fs['next']}, interpreter {rs['next_phase']}")
        for name, fv in sorted(fs["vars"].items()):
            iv = rs["persist"].get(name)
            if fv is None and iv is None:
                continue
            if iv is None and isinstance(fv, float):
                # a scalar the interpreter has not assigned yet (its phase has not run / the step was cut
                # short): Fortran scalars always have storage, there is nothing to compare
                continue
            if fv is None or iv is None:
                return ("persistent-variable-unset", f"after run call {i + 1}: {name}: Fortran "
                        f"{'unset' if fv is None else 'set'}, interpreter {'unset' if iv is None else 'set'}")
            if not values_equal(np.asarray(fv, dtype=float) if isinstance(fv, np.ndarray) else fv,
                                np.asarray(iv, dtype=float) if isinstance(iv, np.ndarray) else float(iv),
                                rtol=1e-9, atol=1e-300):
                return ("persistent-value", f"after run call {i + 1} ({rs['outcome']}): {name}: Fortran {fv!r}, "
                        f"interpreter {iv!r}")
        for c, fr in sorted(fs["ret"].items()):
            ir = rs["ret"].get(c)
            if fr is None and ir is None:
                continue
            if fr is None or ir is None:
                return ("returned-state-slot", f"after run call {i + 1}: component {c}: Fortran "
                        f"{'none' if fr is None else 'set'}, interpreter {'none' if ir is None else 'set'}")
            t, tid, vec = fr
            it, itid, ivec = ir
            if not values_equal(t, float(it), rtol=1e-9):
                return ("returned-time", f"after run call {i + 1}: component {c}: time Fortran {t}, interpreter {it}")
            if int(tid) != tids.index(itid):
                return ("returned-time-id", f"after run call {i + 1}: component {c}: time id Fortran {tid}, "
                        f"interpreter {itid} (= {tids.index(itid)})")
            if not values_equal(vec, np.asarray(ivec, dtype=float), rtol=1e-9):
                return ("returned-state", f"after run call {i + 1}: component {c}: Fortran {vec!r}, "
                        f"interpreter {ivec!r}")
    return None


# {{{ end-to-end execution of one script

class Obs:
    """Everything observed for one script."""

    def __init__(self):
        self.undefined = None
        self.gen_error = None
        self.compile_error = None
        self.rc = None
        self.stdout = ""
        self.stderr = ""
        self.steps = []
        self.done = False
        self.ref = None
        self.diff = None
        self.code = None
        self.driver = None
        self.dag = None


def reference_defined(script, ncalls):
    """Run R_seq for ncalls step attempts; returns (RSeq, None) or (None, reason)."""
    from vf.rseq import RSeq
    from vf.sexpr import Undefined
    try:
        rs = RSeq(script)
        for _ in range(ncalls):
            if rs.step() == "raised":
                break
    except Undefined as u:
        return None, str(u)
    if rs.alias_sensitive:
        return None, "alias-sensitive-element-write"
    return rs, None


def execute(script, flags=None, env=None, trace=False, valgrind=False, keep_dir=None, timeout=60, instrument=False,
            heap_state=False):
    obs = Obs()
    ncalls = script.get("ncalls", 3)
    rs, why = reference_defined(script, ncalls)
    if rs is None:
        obs.undefined = why
        return obs
    obs.rseq = rs
    dag = prog.build(script)
    obs.dag = dag
    obs.ref = interpreter_steps(dag, script, ncalls)
    if obs.ref and "crash" in obs.ref[-1]:
        obs.undefined = "interpreter-" + obs.ref[-1]["crash"][0]
        return obs
    try:
        g = generate(dag, script, trace=trace, instrument=instrument)
    except Exception as ex:      # noqa: BLE001
        import traceback
        obs.gen_error = (type(ex).__name__, str(ex)[:300], traceback.format_exc()[-1200:])
        return obs
    obs.code = g.code
    obs.driver = driver_source(g, dag, script, ncalls, heap_state=heap_state)
    flags = list(flags if flags is not None else fort.SAN_FLAGS)
    with fort.Scratch("vf-ftn-") as d:
        srcs = [("vfmod.f90", g.code), ("driver.f90", obs.driver)]
        if has_struct(script):
            srcs.insert(0, ("vftypes.f90", TYPES_MODULE))
        rc, out = fort.compile_(d, srcs, exe="prog",
                                flags=flags + ["-ffree-line-length-none"], libs=["lapack", "blas"])
        if rc != 0:
            obs.compile_error = out
            return obs
        e = dict(fort.SAN_ENV)
        if env:
            e.update(env)
        prefix = ()
        if valgrind:
            prefix = ("valgrind", "--error-exitcode=42", "--leak-check=full", "--errors-for-leak-kinds=definite",
                      "--track-origins=no")
            e = {}
        obs.rc, obs.stdout, obs.stderr = fort.run(d, "prog", env=e, timeout=timeout * (8 if valgrind else 1),
                                                  prefix=prefix)
    obs.steps, obs.done = parse_dump(obs.stdout)
    return obs


def compile_error_key(out):
    """Mechanism key from gfortran's message (structure, not names)."""
    m = re.findall(r"Error: (.*)", out)
    if not m:
        return "unknown"
    msg = m[0]
    msg = re.sub(r"'[^']*'", "X", msg)
    msg = re.sub(r"‘[^’]*’", "X", msg)
    msg = re.sub(r"\(\d+\)", "(N)", msg)
    msg = re.sub(r"[^A-Za-z ]+", " ", msg)
    return "-".join(msg.split()[:8])

# }}}
