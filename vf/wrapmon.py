"""Monitor for dagrt's line wrappers (C20): postcondition over the real
wrap_line of either target.  `judge` is the oracle; `attach` re-binds the two
module attributes the generators really call (they were bound with
functools.partial at import time, so decorating wrap_line_base alone would be
bypassed) with icontract-checked versions."""
import re
import shlex


_PY_TOKEN = re.compile(r"""'(?:\\.|[^'\\])*'|"(?:\\.|[^"\\])*"|[^\s'"]\S*""")


def lex(line, marker=None):
    """The monitor's own notion of a token: a blank-separated word; a quote at the start of a word opens a string
    that runs to the matching quote and ends the word.  For Python (marker backslash) a backslash inside a string
    escapes the next character, as in the language (written independently of the repository's lexer, as a
    regular expression); for Fortran there are no escapes."""
    if marker != "\\":
        return shlex.split(line, posix=False)
    out = []
    i, n = 0, len(line)
    while i < n:
        if line[i] in " \t\r\n":
            i += 1
            continue
        m = _PY_TOKEN.match(line, i)
        if m is None:
            raise ValueError("No closing quotation")
        out.append(m.group(0))
        i = m.end()
    return out


def strip_cont(lines, marker):
    """Undo the layout: drop the continuation marker of all but the last line
    and the padding in front of it."""
    out = []
    for i, ln in enumerate(lines):
        if i < len(lines) - 1:
            if not ln.endswith(marker):
                return None
            ln = ln[:-1]
        out.append(ln.strip())
    return " ".join(x for x in out if x)


def judge(line, level, width, indentation, result, marker):
    """Returns None or (mech, text)."""
    try:
        tokens = lex(line, marker)
    except ValueError:
        return None            # unbalanced quote: not a token sequence
    if not isinstance(result, list) or not all(isinstance(x, str) for x in result):
        return ("result-not-a-list-of-lines", repr(result)[:200])
    joined = strip_cont(result, marker)
    if joined is None:
        return ("continued-line-without-marker",
                f"a non-final line does not end in {marker!r}: {result}")
    try:
        got = lex(joined, marker)
    except ValueError as ex:
        return ("output-not-lexable", f"{ex}: {result}")
    if got != tokens:
        return ("token-sequence-changed", f"tokens {tokens} became {got} (lines {result})")
    ind = len(level * indentation)
    quoted = [t for t in tokens if len(t) >= 2 and t[0] in "'\"" and t[-1] == t[0]]
    for q in quoted:
        if not any(q in ln for ln in result):
            return ("quoted-string-split", f"{q!r} is not contained in any single output line: {result}")
    for i, ln in enumerate(result):
        body = ln[:-1] if i < len(result) - 1 else ln
        try:
            ntok = len(lex(body, marker))
        except ValueError:
            ntok = 2
        if ntok > 1 and ind + len(ln) > width:
            return ("line-too-wide", f"line {i} {ln!r} holds {ntok} tokens and is "
                    f"{ind + len(ln)} wide (indentation {ind} included) > {width}")
    if result and result[0][:1] in (" ", "\t") and tokens:
        return ("first-line-indented", f"first line starts with whitespace: {result[0]!r}")
    return None


def judge_emitted_pieces(text, pieces, marker, width=80):
    """For generators that do not pass every line through the wrapper (the Python one): the physical lines that DID
    come out of the wrapper, found again in the emitted text with the indentation the generator gave them, must
    fit the width if they hold more than one token."""
    out = []
    for no, ln in enumerate(text.split("\n"), 1):
        st = ln.strip()
        if len(ln) <= width or st not in pieces:
            continue
        body = st[:-1] if st.endswith(marker) else st
        try:
            ntok = len(lex(body, marker))
        except ValueError:
            ntok = 2
        if ntok > 1:
            out.append(("emitted-wrapped-line-too-wide",
                        f"emitted line {no} came out of the wrapper, is {len(ln)} wide and holds {ntok} tokens: {ln!r}"))
    return out


def judge_emitted_text(text, marker, comment, width=80):
    """Whole-module view (what the generator finally emits, after it has put the indentation back): no physical
    line that holds more than one token is wider than the width.  Returns a list of (mech, text)."""
    out = []
    in_doc = False
    for no, ln in enumerate(text.split("\n"), 1):
        st = ln.strip()
        if marker == "\\":
            # Python: skip comments and docstring bodies (free text, never passed through the wrapper)
            if st.count('"""') % 2 == 1:
                in_doc = not in_doc
                continue
            if in_doc or st.startswith("#") or '"""' in st:
                continue
        if not st or st.startswith(comment) or len(ln) <= width:
            continue
        body = st[:-1] if st.endswith(marker) else st
        try:
            ntok = len(lex(body, marker))
        except ValueError:
            ntok = 2
        if ntok > 1:
            out.append(("emitted-line-too-wide", f"emitted line {no} is {len(ln)} wide and holds {ntok} tokens: {ln!r}"))
    return out


def python_ast_differs(line, result):
    """For lines a real generator emits: the wrapped physical lines must parse to the same syntax tree as the
    line itself (None: same / not a statement on its own; else a description)."""
    import ast

    def tree(src):
        src = src.rstrip()
        if src.endswith(":"):
            src += " pass"
        return ast.dump(ast.parse(src + "\n"))
    try:
        want = tree(line.strip())
    except SyntaxError:
        return None
    try:
        got = tree("\n".join(result))
    except SyntaxError as ex:
        return f"wrapped form is not valid Python ({ex.msg}): {result}"
    if got != want:
        return f"wrapped form parses to another syntax tree: {result}"
    return None


class WrapMonitor:
    def __init__(self, rec):
        self.rec = rec
        self.failures = []
        self.pieces = {"python": set(), "fortran": set()}     # every physical line the wrapper handed back
        self.ast_check = False      # switched on while a real generator is emitting

    def attach(self):
        import icontract
        import dagrt.codegen.fortran as F
        import dagrt.codegen.python as P
        mon = self

        class WrapBroken(Exception):
            pass

        self._orig = (P.wrap_line, F.wrap_line)

        def make(orig, marker, name):
            def wrap_line(line, level=0, width=80, indentation="    "):
                return orig(line, level=level, width=width, indentation=indentation)

            def layout_only(line, level, width, indentation, result):
                mon.rec.count(f"wrap_contract_evaluations_{name}")
                if len(result) > 1:
                    mon.rec.count(f"wrapped_lines_judged_{name}")
                if isinstance(result, list):
                    mon.pieces[name].update(r.strip() for r in result if isinstance(r, str))
                why = judge(line, level, width, indentation, result, marker)
                if not why and mon.ast_check and name == "python" and isinstance(result, list) and len(result) > 1:
                    mon.rec.count("generator_python_lines_ast_compared")
                    d = python_ast_differs(line, result)
                    if d:
                        why = ("generator-line-python-ast-changed", d)
                if why:
                    mon.failures.append((name, why, {"line": line, "level": level, "width": width,
                                                     "indentation": indentation, "target": name}))
                return True
            return icontract.ensure(layout_only, error=WrapBroken)(wrap_line)

        P.wrap_line = make(self._orig[0], "\\", "python")
        F.wrap_line = make(self._orig[1], "&", "fortran")
        return P.wrap_line, F.wrap_line

    def detach(self):
        import dagrt.codegen.fortran as F
        import dagrt.codegen.python as P
        P.wrap_line, F.wrap_line = self._orig

    def flush(self, rec, context=None):
        for name, (mech, text), wit in self.failures:
            if context is not None:
                wit = dict(wit, context=context)
            rec.violation(f"{mech}", f"[{name}] {text}", wit)
        self.failures.clear()
