"""Regenerates MANIFEST.json from the per-property driver modules:
   /venv/bin/python -m vf.manifest_gen"""
import importlib
import json
import os

from vf import VERIF_ROOT

ALL = [f"C{i:02d}" for i in range(1, 21)]


def main():
    checks = []
    na = []
    for pid in ALL:
        path = os.path.join(VERIF_ROOT, "vf", "props", pid.lower() + ".py")
        if not os.path.exists(path):
            na.append({"property_id": pid,
                       "reason": "check not built yet in this round (runtime monitoring applies; see DESIGN.md section 2)"})
            continue
        src = open(path).read()
        ns = {}
        # only metadata literals are needed; avoid importing dagrt here
        for name in ("LEVEL", "TECHNIQUE", "LEVEL_TEXT", "LEVEL_NOTE", "DESIGN_REF"):
            pass
        mod = importlib.import_module(f"vf.props.{pid.lower()}")
        checks.append({
            "property_id": pid,
            "quick_cmd": f"./check {pid} --tier quick",
            "thorough_cmd": f"./check {pid} --tier thorough",
            "evidence_file": f"/verif/evidence/{pid}.json",
            "replay_cmd_template": f"./check {pid} --replay {{path}}",
            "engine": "vf",
            "level_claimed": {
                "category": mod.LEVEL,
                "text": getattr(mod, "LEVEL_TEXT", mod.RULE),
                "design_ref": f"DESIGN.md section 2, {pid}",
            },
            "level_note": getattr(mod, "LEVEL_NOTE", "; ".join(getattr(mod, "ASSUMPTIONS", []))),
            "technique": getattr(mod, "TECHNIQUE", "runtime monitoring: oracle over observed executions of the real code"),
        })
    hooks_commits = []
    hp = os.path.join(VERIF_ROOT, "hooks_commits.txt")
    if os.path.exists(hp):
        hooks_commits = [ln.split()[0] for ln in open(hp) if ln.strip() and not ln.startswith("#")]
    man = {
        "version": 1,
        "setup_cmd": "./check --setup",
        "hooks": {
            "guard": "DAGRT_VERIF",
            "enable": "no build step: /venv/bin/python imports dagrt from /repo (editable install); "
                      "monitors attach from the harness (subclass/proxy, icontract, sys.monitoring). "
                      "Checks export DAGRT_VERIF=1.",
            "baseline_off_cmd": "cd /repo && env -u DAGRT_VERIF /venv/bin/python -m pytest -ra -q -p no:cacheprovider --timeout=900 --continue-on-collection-errors",
            "source_commits": hooks_commits,
            "add_only": True,
        },
        "engines": [{
            "name": "vf",
            "path": "/verif/vf",
            "serves_properties": [c["property_id"] for c in checks],
            "kind_free_text": "Python runtime-monitoring framework: seeded workload generators, reference-model / "
                              "differential / contract monitors on the real dagrt code, gfortran sanitizer harness; "
                              "sharded over 16 subprocesses with per-case watchdogs and a three-valued verdict",
        }],
        "checks": checks,
        "not_applicable": na,
        "notes": "Every check: exit 0 held on what was observed, exit 1 + VIOLATION line, exit 2 + INCONCLUSIVE line "
                 "(monitor not reached / too few cases / watchdog). Known findings: /verif/known_findings.json.",
    }
    with open(os.path.join(VERIF_ROOT, "MANIFEST.json"), "w") as f:
        json.dump(man, f, indent=1)
    print(f"{len(checks)} checks, {len(na)} not yet claimed")


if __name__ == "__main__":
    main()
