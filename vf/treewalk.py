"""R_tree (control part): independent walker over dagrt's structured-program
nodes with *opaque guard valuations*.  Own isinstance dispatch, no dagrt mapper.
Used by C05, C06 (leaf traces) and, with a value store, by C07."""
from dagrt.codegen import dag_ast as A
from pymbolic.primitives import LogicalAnd, LogicalNot, LogicalOr, Variable


class Opaque(Exception):
    pass


def eval_guard(cond, val):
    """cond: True/False, Variable (flag), LogicalNot/And/Or thereof.
    val: dict flag-name -> bool, or a callable for any other atom."""
    if cond is True or cond is False:
        return cond
    if isinstance(cond, Variable):
        return bool(val[cond.name])
    if isinstance(cond, LogicalNot):
        return not eval_guard(cond.child, val)
    if isinstance(cond, LogicalAnd):
        return all(eval_guard(c, val) for c in cond.children)
    if isinstance(cond, LogicalOr):
        return any(eval_guard(c, val) for c in cond.children)
    from pymbolic.primitives import Comparison
    if isinstance(cond, Comparison):
        # numeric atoms: val maps the variable names to floats (NaN included); constants are numbers
        import operator
        def num(x):
            return float(val[x.name]) if isinstance(x, Variable) else float(x)
        op = {"<": operator.lt, "<=": operator.le, ">": operator.gt, ">=": operator.ge, "==": operator.eq,
              "!=": operator.ne}[cond.operator]
        return bool(op(num(cond.left), num(cond.right)))
    raise Opaque(f"unsupported guard {cond!r}")


def leaf_key(x):
    if isinstance(x, A.StatementWrapper):
        return ("stmt", x.statement.id)
    return ("leaf", repr(x))


def leaf_trace(node, val, out=None, loops=()):
    """Sequence of leaves executed under valuation `val`.  Loops are not
    iterated: a leaf inside loops is recorded once with its loop context."""
    if out is None:
        out = []
    if isinstance(node, A.Block):
        for c in node.children:
            leaf_trace(c, val, out, loops)
    elif isinstance(node, A.IfThenElse):
        if eval_guard(node.condition, val):
            leaf_trace(node.then, val, out, loops)
        else:
            leaf_trace(node.else_, val, out, loops)
    elif isinstance(node, A.IfThen):
        if eval_guard(node.condition, val):
            leaf_trace(node.then, val, out, loops)
    elif isinstance(node, A.ForLoop):
        leaf_trace(node.body, val, out,
                   loops + ((node.loop_var_name, str(node.lbound), str(node.ubound)),))
    elif isinstance(node, A.NullASTNode):
        pass
    else:
        k = leaf_key(node)
        out.append(k if not loops else k + (loops,))
    return out


def leaf_trace_iterated(node, val, trips=2, out=None, it=()):
    """Like leaf_trace, but every loop body is run `trips` times (bounds are opaque, so the trip count is a
    choice of the walk): events are (leaf key, iteration vector)."""
    if out is None:
        out = []
    if isinstance(node, A.Block):
        for c in node.children:
            leaf_trace_iterated(c, val, trips, out, it)
    elif isinstance(node, A.IfThenElse):
        leaf_trace_iterated(node.then if eval_guard(node.condition, val) else node.else_, val, trips, out, it)
    elif isinstance(node, A.IfThen):
        if eval_guard(node.condition, val):
            leaf_trace_iterated(node.then, val, trips, out, it)
    elif isinstance(node, A.ForLoop):
        for k in range(trips):
            leaf_trace_iterated(node.body, val, trips, out, it + ((node.loop_var_name, k),))
    elif isinstance(node, A.NullASTNode):
        pass
    else:
        out.append((leaf_key(node), it))
    return out


def show(node, ind=0):
    """Own tree printer (ASTStringifier.map_IfThenElse crashes on a stray +)."""
    p = "  " * ind
    if isinstance(node, A.Block):
        return p + "Block[\n" + "".join(show(c, ind + 1) for c in node.children) + p + "]\n"
    if isinstance(node, A.IfThenElse):
        return (p + f"IfThenElse({node.condition})\n" + show(node.then, ind + 1)
                + p + "else\n" + show(node.else_, ind + 1))
    if isinstance(node, A.IfThen):
        return p + f"IfThen({node.condition})\n" + show(node.then, ind + 1)
    if isinstance(node, A.ForLoop):
        return (p + f"For({node.loop_var_name} in {node.lbound}..{node.ubound})\n"
                + show(node.body, ind + 1))
    if isinstance(node, A.NullASTNode):
        return p + "Null\n"
    if isinstance(node, A.StatementWrapper):
        s = node.statement
        return p + f"[{s.id}] {s}\n"
    return p + repr(node) + "\n"
