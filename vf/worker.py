"""Shard worker: python -m vf.worker CNN shard.json out.json"""
import importlib
import json
import sys


def main():
    prop_id, sf, of = sys.argv[1:4]
    from vf import bootstrap
    from vf.deps import ensure
    ensure()
    bootstrap()
    from vf.runner import Reach, Rec
    with open(sf) as f:
        shard = json.load(f)
    mod = importlib.import_module(f"vf.props.{prop_id.lower()}")
    anchors = list(getattr(mod, "ANCHORS", [])) + list(getattr(mod, "ANCHORS_INFO", []))
    reach = Reach(anchors)
    rec = Rec(prop_id, shard)
    mod.run_shard(shard, rec)
    res = rec.result()
    res["reach"] = reach.counts
    res["reach_missing"] = reach.missing
    with open(of, "w") as f:
        json.dump(res, f, default=repr)


if __name__ == "__main__":
    main()
