"""C05 — lowering a phase to structured code keeps order, guards and loops.

Monitor: reference-model (vf.treewalk with opaque guard valuations) over the
tree returned by the real create_ast_from_phase, plus a recording subclass of
the real StructuredCodeGenerator observing lower_node's begin/end callbacks,
plus metamorphic re-lowering of permuted / re-containered / re-hash-seeded
presentations of the same phase."""
import itertools
import json
import os
import random
import subprocess
import sys

from vf import VERIF_ROOT
from vf.runner import CaseTimeout, case_alarm

ID = "C05"
LEVEL = "exploration"
RULE = ("hand-written phases of 1-12 statements of all kinds (Assign with 0-2 loops with constant and symbolic "
        "bounds, AssignFunctionCall, YieldState, FailStep, SwitchPhase, Raise, Nop), random acyclic dependencies, "
        "guards from {True, flag, not flag, not not flag, and(flag, flag'), or(flag, flag'), and(flag, not flag')} over <=4 flags, "
        "and comparisons / negated comparisons of a numeric variable with a constant (valuations 0.5, 1, 2, NaN); "
        "each phase is lowered by the real create_ast_from_phase and walked under ALL 2^k flag valuations; "
        "re-lowered from permuted lists, tuples, frozensets and under other PYTHONHASHSEEDs; and pushed through "
        "StructuredCodeGenerator.lower_node with a recording subclass. distinct = canonical JSON of the phase; "
        "non-trivial = >=3 statements, >=1 dependency and >=1 guard or loop")
ASSUMPTIONS = [
    "guards are opaque: every distinct flag gets one truth value for the whole walk (the property quantifies "
    "over valuations of the statements' guards)",
    "loop bounds are opaque: a leaf is identified with its enclosing (counter, lower, upper) nest, and in the "
    "iterated walk every loop makes exactly two trips",
]
ANCHORS = ["dagrt.codegen.dag_ast:create_ast_from_phase", "dagrt.codegen.dag_ast:loop_to_ast_node",
           "dagrt.codegen.dag_ast:conditional_to_ast", "dagrt.codegen.codegen_base:StructuredCodeGenerator.lower_node"]
MIN_NONTRIVIAL = {"quick": 4000, "thorough": 280000}
REQUIRED_COUNTERS = {"quick": ["phases_lowered", "phase_x_valuation_walks", "presentations_compared",
                               "lower_node_streams_checked", "hashseed_trees_compared"],
                     "thorough": ["phases_lowered", "phase_x_valuation_walks", "presentations_compared",
                                  "lower_node_streams_checked", "hashseed_trees_compared"]}
SHARD_TIMEOUT = {"quick": 900, "thorough": 3000}


def _last_json(stdout):
    for ln in reversed(stdout.splitlines()):
        if ln.startswith("VFJSON:"):
            return json.loads(ln[7:])
    raise ValueError("child produced no result line")


def plan(tier, seed):
    per = 500 if tier == "quick" else 48000
    return [{"seed": f"C05:{seed}:{k}", "count": per, "hashseeds": [1, 2] if tier == "quick" else [1, 2, 3, 4]}
            for k in range(16)]


FLAGS = ["<cond>a", "<cond>b", "<cond>c", "<cond>d"]


NUMVARS = ["<state>err", "<p>tol"]
NUMVALS = [0.5, 1.0, 2.0, float("nan")]


def gen_guard(rng, flags):
    r = rng.random()
    if rng.random() < 0.15:
        # a comparison as guard (hand-written phases may carry any condition), plain or negated; its operands may
        # be NaN at run time: 'not (err < 1)' holds then, 'err >= 1' does not
        c = ["cmp", rng.choice(["<", "<=", ">", ">=", "==", "!="]), rng.choice(NUMVARS), 1.0]
        return c if rng.random() < 0.5 else ["not", c]
    if r < 0.3 or not flags:
        return True
    f = rng.choice(flags)
    if r < 0.55:
        return ["f", f]
    if r < 0.7:
        return ["not", ["f", f]]
    if r < 0.75:
        return ["not", ["not", ["f", f]]]
    g = rng.choice(flags)
    if r < 0.82:
        # (a disjunction over the same operands now and then: 'a or b' next to 'a and b' are different guards)
        return [rng.choice(["and", "and", "or"]), ["f", f], ["f", g]]
    if r < 0.9:
        return ["and", ["f", f], ["not", ["f", g]]]
    # three or four conjuncts: one n-ary LogicalAnd (what nested if_ blocks produce) or nested binary ones
    lits = [["f", x] if rng.random() < 0.75 else ["not", ["f", x]] for x in rng.sample(flags, min(len(flags), rng.choice([3, 3, 4])))]
    if len(lits) < 3:
        lits.append(["f", f])
    if rng.random() < 0.7:
        return ["and"] + lits
    return ["and", ["and", lits[0], lits[1]]] + lits[2:]


def gen_phase(rng):
    n = rng.randint(1, 12)
    flags = FLAGS[:rng.randint(0, 4)]
    ids = []
    while len(ids) < n:
        s = rng.choice(["s", "m_", "zz", "st"]) + str(rng.randint(0, 99))
        if s not in ids:
            ids.append(s)
    order = ids[:]
    rng.shuffle(order)
    dens = rng.choice([0.1, 0.3, 0.6])
    stmts = []
    for i, x in enumerate(order):
        deps = [y for y in order[:i] if rng.random() < dens]
        kind = rng.choice(["assign", "assign", "assign", "loop1", "loop2", "call", "yield", "fail", "switch",
                           "raise", "nop"])
        loops = []
        if kind == "loop1":
            loops = [[rng.choice(["i", "k"]), rng.choice([0, 1, "lo"]), rng.choice([3, "n", "n+1"])]]
            if rng.random() < 0.3:
                # constant bounds of every length: one trip [k, k+1), none [k, k), backwards [k, k-1)
                k = rng.choice([0, 1, 3])
                loops = [[rng.choice(["i", "k"]), k, k + rng.choice([1, 1, 0, 2, -1])]]
        elif kind == "loop2":
            loops = [["i", 0, rng.choice([2, "n", 1])], ["j", rng.choice([0, "i", 1]), rng.choice([3, "m", 2])]]
        # which loop variables the looped statement mentions: all / only in the subscript / none at all
        # (scalar assignee, constant right-hand side) / all but the outermost
        uses = rng.choice(["all", "all", "subscript", "none", "inner-only"])
        stmts.append({"id": x, "kind": kind, "deps": deps, "guard": gen_guard(rng, flags), "loops": loops,
                      "uses": uses})
    rng.shuffle(stmts)
    return {"stmts": stmts}


def pym_guard(g):
    from pymbolic import var
    from pymbolic.primitives import LogicalAnd, LogicalNot
    if g is True:
        return True
    if g[0] == "f":
        return var(g[1])
    if g[0] == "cmp":
        from pymbolic.primitives import Comparison
        return Comparison(var(g[2]), g[1], g[3])
    if g[0] == "not":
        return LogicalNot(pym_guard(g[1]))
    if g[0] == "or":
        from pymbolic.primitives import LogicalOr
        return LogicalOr(tuple(pym_guard(x) for x in g[1:]))
    return LogicalAnd(tuple(pym_guard(x) for x in g[1:]))


def ev_guard(g, val):
    if g is True:
        return True
    if g[0] == "f":
        return val[g[1]]
    if g[0] == "cmp":
        import operator
        op = {"<": operator.lt, "<=": operator.le, ">": operator.gt, ">=": operator.ge, "==": operator.eq,
              "!=": operator.ne}[g[1]]
        return bool(op(val[g[2]], g[3]))
    if g[0] == "not":
        return not ev_guard(g[1], val)
    if g[0] == "or":
        return any(ev_guard(x, val) for x in g[1:])
    return all(ev_guard(x, val) for x in g[1:])


def build_stmt(d):
    from dagrt.expression import parse
    from dagrt.language import (Assign, AssignFunctionCall, FailStep, Nop, Raise, SwitchPhase, YieldState)
    from pymbolic import var
    kw = dict(id=d["id"], depends_on=frozenset(d["deps"]))
    k = d["kind"]
    if k == "nop":
        return Nop(condition=pym_guard(d["guard"]), **kw)
    kw["condition"] = pym_guard(d["guard"])
    if k in ("assign", "loop1", "loop2"):
        loops = [(c, parse(str(lo)), parse(str(hi))) for c, lo, hi in d["loops"]]
        if loops:
            uses = d.get("uses", "all")
            if uses == "none":
                return Assign("v_" + d["id"], (), var("<state>y") + 1, loops=loops, **kw)
            if uses == "subscript":
                return Assign("arr_" + d["id"], (var(loops[-1][0]),), var("<state>y") + 1, loops=loops, **kw)
            if uses == "inner-only":
                return Assign("arr_" + d["id"], (var(loops[-1][0]),), var(loops[-1][0]) + 1, loops=loops, **kw)
            return Assign("arr_" + d["id"], (var(loops[-1][0]),), var(loops[0][0]) + 1, loops=loops, **kw)
        return Assign("v_" + d["id"], (), var("<state>y") + 1, **kw)
    if k == "call":
        # (every other call is made for its effect only: no assignee)
        asg = () if sum(map(ord, d["id"])) % 2 else ("w_" + d["id"],)
        return AssignFunctionCall(asg, "<func>f", (var("<t>"),), **kw)
    if k == "yield":
        return YieldState(expression=var("<state>y"), component_id="y", time=var("<t>"), time_id="fin", **kw)
    if k == "fail":
        return FailStep(**kw)
    if k == "switch":
        return SwitchPhase("main", **kw)
    if k == "raise":
        return Raise(ValueError, "boom", **kw)
    raise ValueError(k)


def make_dag(desc, order=None, container="list"):
    from dagrt.language import DAGCode, ExecutionPhase
    ds = desc["stmts"] if order is None else [desc["stmts"][i] for i in order]
    stmts = [build_stmt(d) for d in ds]
    cont = {"list": list, "tuple": tuple, "frozenset": frozenset, "set": set}[container]
    return DAGCode({"main": ExecutionPhase("main", "main", cont(stmts))}, "main")


def valuations(flags):
    """All valuations: truth values for flags, a few numbers (NaN included) for numeric guard variables."""
    doms = [NUMVALS if f in NUMVARS else [False, True] for f in flags]
    for combo in itertools.product(*doms):
        yield dict(zip(flags, combo))


def flags_in(desc):
    out = set()

    def rec_(g):
        if g is True:
            return
        if g[0] == "f":
            out.add(g[1])
        elif g[0] == "cmp":
            out.add(g[2])
        else:
            for x in g[1:]:
                rec_(x)
    for d in desc["stmts"]:
        rec_(d["guard"])
    return sorted(out)


class Recorder:
    """Recording subclass of the real generic walker."""

    def __new__(cls):
        from dagrt.codegen.codegen_base import StructuredCodeGenerator

        class _R(StructuredCodeGenerator):
            def __init__(self):
                self.stream = []

            def lower_inst(self, inst):
                self.stream.append(("inst", inst.id))

            def emit_if_begin(self, expr):
                self.stream.append(("if", expr))

            def emit_if_end(self):
                self.stream.append(("endif",))

            def emit_else_begin(self):
                self.stream.append(("else",))

            def emit_for_begin(self, v, lo, hi):
                self.stream.append(("for", v, str(lo), str(hi)))

            def emit_for_end(self, v):
                self.stream.append(("endfor", v))

            def emit_return(self):
                self.stream.append(("return",))
        return _R()


def run_stream(stream, val):
    """Interpret the begin/end callback stream under a valuation -> leaf trace,
    or raise ValueError if the stream is not properly nested."""
    from vf.treewalk import eval_guard
    out = []
    stack = []      # entries: ["if", active, taken] / ["for", name, lo, hi]

    def active():
        return all(e[1] for e in stack if e[0] == "if")
    for ev in stream:
        k = ev[0]
        if k == "if":
            c = eval_guard(ev[1], val) if active() else False
            stack.append(["if", c, c, active()])
        elif k == "else":
            if not stack or stack[-1][0] != "if":
                raise ValueError("else without if")
            e = stack[-1]
            if len(e) > 4:
                raise ValueError("two else for one if")
            e.append("else-seen")
            e[1] = (not e[2]) and e[3]
        elif k == "endif":
            if not stack or stack[-1][0] != "if":
                raise ValueError("endif without if")
            stack.pop()
        elif k == "for":
            stack.append(["for", ev[1], ev[2], ev[3]])
        elif k == "endfor":
            if not stack or stack[-1][0] != "for" or stack[-1][1] != ev[1]:
                raise ValueError("endfor does not match")
            stack.pop()
        elif k == "inst":
            if active():
                loops = tuple((e[1], e[2], e[3]) for e in stack if e[0] == "for")
                out.append(("stmt", ev[1], loops) if loops else ("stmt", ev[1]))
        elif k == "return":
            if stack:
                raise ValueError("return inside open block")
    if stack:
        raise ValueError("unclosed block")
    return out


def check_phase(desc, rec, rng, nperm=4):
    from dagrt.codegen.dag_ast import create_ast_from_phase
    from vf.treewalk import leaf_trace, leaf_trace_iterated, show
    try:
        with case_alarm(20):
            dag = make_dag(desc)
            tree = create_ast_from_phase(dag, "main")
            if len(desc["stmts"]) % 2:
                # the same description object is lowered AGAIN (a second generator, a generator after the
                # interpreter, ...): what is judged below is the second result, which must also equal the first
                first = show(tree)
                tree = create_ast_from_phase(dag, "main")
                rec.count("phases_lowered_twice")
                if show(tree) != first:
                    rec.violation("second-lowering-of-the-same-description-differs",
                                  f"first: {first}\nsecond: {show(tree)}", desc)
                    return None
    except CaseTimeout:
        rec.violation("lowering-hang", "create_ast_from_phase did not return", desc)
        return None
    except Exception as ex:
        rec.violation(f"lowering-exception-{type(ex).__name__}", f"{type(ex).__name__}: {ex}", desc)
        return None
    rec.count("phases_lowered")
    byid = {d["id"]: d for d in desc["stmts"]}
    closure = {}

    def reach(x):
        if x not in closure:
            closure[x] = set()
            for y in byid[x]["deps"]:
                if y in byid:
                    closure[x] |= {y} | reach(y)
        return closure[x]
    for d in desc["stmts"]:
        reach(d["id"])
    flags = flags_in(desc)
    base_show = show(tree)
    for val in valuations(flags):
        try:
            tr = leaf_trace(tree, val)
        except Exception as ex:
            rec.violation("tree-not-walkable", f"{type(ex).__name__}: {ex}\n{base_show}", desc)
            return None
        rec.count("phase_x_valuation_walks")
        rec.count("leaf_events_checked", len(tr))
        got_ids = [t[1] for t in tr]
        want = {d["id"] for d in desc["stmts"] if d["kind"] != "nop" and ev_guard(d["guard"], val)}
        wit = dict(desc, valuation=val)
        if len(set(got_ids)) != len(got_ids):
            rec.violation("statement-lowered-twice", f"under {val}: {got_ids}\n{base_show}", wit)
            return None
        if set(got_ids) != want:
            miss, extra = sorted(want - set(got_ids)), sorted(set(got_ids) - want)
            rec.violation("guard-true-statement-missing" if miss else "guard-false-statement-executed",
                          f"under {val}: missing {miss}, extra {extra}\n{base_show}", wit)
            return None
        pos = {x: i for i, x in enumerate(got_ids)}
        for x in got_ids:
            for dpd in byid[x]["deps"]:
                if dpd in pos and pos[dpd] > pos[x]:
                    rec.violation("dependency-order-violated",
                                  f"under {val}: {x} before its dependency {dpd}: {got_ids}", wit)
                    return None
        # loops really iterated (two trips each): all executions of a statement come before any execution of a
        # statement that (transitively) depends on it, and each statement runs once per iteration vector
        evs = leaf_trace_iterated(tree, val, 2)
        rec.count("iterated_leaf_events_checked", len(evs))
        first, last, count = {}, {}, {}
        for i, (k, itv) in enumerate(evs):
            first.setdefault(k[1], i)
            last[k[1]] = i
            count[k[1]] = count.get(k[1], 0) + 1
        for x in got_ids:
            if count.get(x) != 2 ** len(byid[x]["loops"]):
                rec.violation("iteration-count-changed",
                              f"under {val}: {x} declares {len(byid[x]['loops'])} loop(s) but runs {count.get(x)} "
                              f"times when every loop makes two trips\n{base_show}", wit)
                return None
            for dpd in closure[x]:
                if dpd in last and last[dpd] > first[x]:
                    rec.violation("dependency-order-violated-across-iterations",
                                  f"under {val}: an execution of {x} comes before the last execution of {dpd}, on "
                                  f"which it depends: {[(k[1], tuple(j for _, j in itv)) for k, itv in evs]}"
                                  f"\n{base_show}", wit)
                    return None
        for t in tr:
            sid, loops = t[1], (t[2] if len(t) > 2 else ())
            from dagrt.expression import parse
            want_loops = tuple((c, str(parse(str(lo))), str(parse(str(hi)))) for c, lo, hi in byid[sid]["loops"])
            if tuple(loops) != want_loops:
                rec.violation("loop-nest-changed",
                              f"{sid}: declared loops {want_loops}, lowered inside {tuple(loops)}", wit)
                return None
    # generic walker
    r = Recorder()
    try:
        r.lower_ast(tree)
        for val in valuations(flags):
            a = run_stream(r.stream, val)
            b = leaf_trace(tree, val)
            if [str(x) for x in a] != [str(x) for x in b]:
                rec.violation("lower-node-stream-differs-from-tree",
                              f"under {val}: callbacks execute {a}, tree executes {b}", dict(desc, valuation=val))
                return None
        n_inst = [e[1] for e in r.stream if e[0] == "inst"]
        if len(set(n_inst)) != len(n_inst):
            rec.violation("lower-node-lowers-statement-twice", f"{n_inst}", desc)
            return None
        rec.count("lower_node_streams_checked")
    except ValueError as ex:
        rec.violation("lower-node-callbacks-not-nested", f"{ex}: {r.stream}", desc)
        return None
    # presentations
    n = len(desc["stmts"])
    for j in range(nperm):
        order = list(range(n))
        rng.shuffle(order)
        cont = ["list", "tuple", "frozenset", "set"][j % 4]
        try:
            t2 = create_ast_from_phase(make_dag(desc, order, cont), "main")
        except Exception as ex:
            rec.violation(f"lowering-exception-{type(ex).__name__}",
                          f"presentation {cont}/{order}: {type(ex).__name__}: {ex}", desc)
            return None
        rec.count("presentations_compared")
        s2 = show(t2)
        if s2 != base_show:
            rec.violation("lowering-depends-on-statement-storage-order",
                          f"presentation {cont}/{order} lowers to\n{s2}\ninstead of\n{base_show}",
                          dict(desc, presentation={"order": order, "container": cont}))
            return None
    return base_show


def nontrivial(desc):
    ne = sum(len(d["deps"]) for d in desc["stmts"])
    ng = sum(1 for d in desc["stmts"] if d["guard"] is not True or d["loops"])
    return len(desc["stmts"]) >= 3 and ne >= 1 and ng >= 1


def run_shard(shard, rec):
    rng = random.Random(shard["seed"])
    descs, shows = [], []
    for _ in range(shard["count"]):
        desc = gen_phase(rng)
        s = check_phase(desc, rec, rng)
        rec.case(desc, nontrivial=nontrivial(desc))
        if s is not None and len(descs) < 400:
            descs.append(desc)
            shows.append(s)
    payload = json.dumps(descs)
    for hs in shard["hashseeds"]:
        env = dict(os.environ, PYTHONHASHSEED=str(hs),
                   PYTHONPATH=VERIF_ROOT + os.pathsep + os.environ.get("PYTHONPATH", ""))
        p = subprocess.run([sys.executable, "-m", "vf.props.c05"], input=payload, env=env, cwd=VERIF_ROOT,
                           capture_output=True, text=True, timeout=600)
        if p.returncode != 0:
            rec.notes.append(f"hashseed child {hs} failed: {p.stderr[-300:]}")
            continue
        for desc, s0, s1 in zip(descs, shows, _last_json(p.stdout)):
            rec.count("hashseed_trees_compared")
            if s0 != s1:
                rec.violation("lowering-depends-on-hash-seed",
                              f"PYTHONHASHSEED={hs} lowers to\n{s1}\ninstead of\n{s0}", dict(desc, hashseed=hs))


def replay(witness, rec):
    desc = {"stmts": witness["stmts"]}
    check_phase(desc, rec, random.Random(0), nperm=12)
    rec.case(desc)


if __name__ == "__main__":
    from vf import bootstrap
    bootstrap()
    from dagrt.codegen.dag_ast import create_ast_from_phase
    from vf.treewalk import show
    out = []
    for desc in json.loads(sys.stdin.read()):
        try:
            out.append(show(create_ast_from_phase(make_dag(desc, None, "frozenset"), "main")))
        except Exception as ex:
            out.append(f"EXC {type(ex).__name__}")
    sys.stdout.write("\nVFJSON:" + json.dumps(out) + "\n")
