"""C08 — declared read/write sets cover what a statement really touches.

Monitor: access-log containment.  A recording dict (RecStore) is installed as
the real interpreter's variable store; every statement is bracketed
(evaluate_condition + exec_*), its observed reads / writes / in-place element
writes are compared with get_read_variables() / get_written_variables(); the
identity-mapping half is checked on the same statements."""
import random

import numpy as np

from vf import backends, prog
from vf.runner import CaseTimeout, case_alarm
from vf.sexpr import Undefined, to_pym

ID = "C08"
LEVEL = "exploration"
RULE = ("(a) every statement of G_prog 'py' programs, executed in program order by the real interpreter from the "
        "persistent state in which its phase first runs (and from a second, perturbed state); (b) hand-built "
        "single statements of all kinds (Assign with subscripts inside subscripts, keyword calls, conditional "
        "expressions, variables that occur only in a loop bound / assignee subscript / guard / yield time; "
        "AssignFunctionCall; YieldState; guarded FailStep/SwitchPhase/Raise; AssignImplicit for the "
        "identity-mapping half) x 3 states. distinct = (statement text, state); non-trivial = the statement "
        "reads at least one variable")
ASSUMPTIONS = [
    "a read is a __getitem__ on the interpreter's store (the evaluator probes membership before falling back "
    "to the function table; probes are not reads)",
    "loop counters are exempt, as the property says",
    "AssignImplicit cannot be executed by the interpreter (NotImplementedError): identity-mapping half only",
]
ANCHORS = ["dagrt.language:AssignBase.get_read_variables", "dagrt.language:Assign.get_read_variables",
           "dagrt.language:AssignFunctionCall.get_read_variables", "dagrt.language:YieldState.get_read_variables",
           "dagrt.language:ConditionalStatementBase.get_read_variables",
           "dagrt.exec_numpy:NumpyInterpreter.exec_Assign"]
MIN_NONTRIVIAL = {"quick": 12000, "thorough": 840000}
REQUIRED_COUNTERS = {"quick": ["statement_executions_checked", "reads_checked", "writes_checked",
                               "identity_mappings_checked", "handbuilt_statements"],
                     "thorough": ["statement_executions_checked", "reads_checked", "writes_checked",
                                  "identity_mappings_checked", "handbuilt_statements"]}
SHARD_TIMEOUT = {"quick": 900, "thorough": 3400}


def plan(tier, seed):
    per = 200 if tier == "quick" else 20000
    sh = [{"kind": "prog", "seed": f"C08:{seed}:{k}", "count": per} for k in range(12)]
    per2 = 1000 if tier == "quick" else 120000
    sh += [{"kind": "single", "seed": f"C08:{seed}:s{k}", "count": per2} for k in range(4)]
    return sh


def counters_of(stmt):
    return {ident for ident, _, _ in getattr(stmt, "loops", [])}


def part_of(stmt, name):
    """Where in the statement the undeclared name occurs (mechanism key)."""
    from dagrt.utils import get_variables
    from pymbolic.primitives import Subscript

    def has(e):
        try:
            return name in get_variables(e)
        except Exception:
            return False
    if getattr(stmt, "condition", True) is not True and has(stmt.condition):
        return "guard"
    lhs = getattr(stmt, "lhs", None)
    if isinstance(lhs, Subscript):
        idx = lhs.index if isinstance(lhs.index, tuple) else (lhs.index,)
        if any(has(i) for i in idx):
            return "assignee-subscript"
    for _, lo, hi in getattr(stmt, "loops", []):
        if has(lo) or has(hi):
            return "loop-bound"
    if hasattr(stmt, "rhs") and has(stmt.rhs):
        return "right-hand-side"
    if hasattr(stmt, "time") and has(stmt.time):
        return "yield-time"
    if hasattr(stmt, "expression") and has(stmt.expression):
        return "yield-expression"
    for p in list(getattr(stmt, "parameters", ())) + list(getattr(stmt, "kw_parameters", {}).values()):
        if has(p):
            return "call-argument"
    return "elsewhere"


def judge(stmt, reads, writes, rec, wit):
    dr = set(stmt.get_read_variables())
    dw = set(stmt.get_written_variables())
    cs = counters_of(stmt)
    rec.count("statement_executions_checked")
    rec.count("reads_checked", len(reads))
    rec.count("writes_checked", len(writes))
    for n in sorted(reads):
        if n not in dr and n not in dw and n not in cs:
            rec.violation(f"undeclared-read-in-{part_of(stmt, n)}-of-{type(stmt).__name__}",
                          f"[{stmt.id}] {stmt}: interpreter read {n!r}; declared reads {sorted(dr)}, writes {sorted(dw)}",
                          wit)
            return False
    for n in sorted(writes):
        if n not in dw and n not in cs:
            rec.violation(f"undeclared-write-of-{type(stmt).__name__}",
                          f"[{stmt.id}] {stmt}: interpreter wrote {n!r}; declared writes {sorted(dw)}", wit)
            return False
    return True


def identity_half(stmt, rec, wit):
    for inc in (True, False):
        try:
            m = stmt.map_expressions(lambda e: e, include_lhs=inc)
        except Exception as ex:
            rec.violation(f"identity-mapping-raises-{type(ex).__name__}-{type(stmt).__name__}",
                          f"{stmt}.map_expressions(identity, include_lhs={inc}): {ex}", wit)
            return
        rec.count("identity_mappings_checked")
        if (set(m.get_read_variables()) != set(stmt.get_read_variables())
                or set(m.get_written_variables()) != set(stmt.get_written_variables())):
            rec.violation(f"identity-mapping-changes-sets-{type(stmt).__name__}",
                          f"{stmt}: reads {sorted(stmt.get_read_variables())} -> {sorted(m.get_read_variables())}, "
                          f"writes {sorted(stmt.get_written_variables())} -> {sorted(m.get_written_variables())} "
                          f"(include_lhs={inc})", wit)
            return


def check_program(script, rec):
    try:
        with case_alarm(30):
            try:
                rs, ref = backends.rseq_result(script)
            except Undefined as u:
                rec.undef(str(u))
                return 0
            dag = prog.build(script)
            funcs = prog.python_functions(script)
            seen = set()
            n = 0
            for name, pstate in rs.step_starts:
                if name in seen:
                    continue
                seen.add(name)
                for variant in (0, 1):
                    st = dict(pstate)
                    if variant:
                        for k, v in list(st.items()):
                            if isinstance(v, float) and k not in ("<dt>",):
                                st[k] = v + 0.75
                    drv = backends.StepDriver(dag, script, funcs, phase_name=name, persist_override=st)
                    order = backends.program_order(drv.phase)
                    out = drv.run(order)
                    wit = {"script": script, "phase": name, "variant": variant}
                    for sid in order:
                        if sid not in out["per_stmt"]:
                            continue
                        stmt = drv.id_to_stmt[sid]
                        r, w = out["per_stmt"][sid]
                        if not judge(stmt, r, w, rec, wit):
                            return n
                        n += 1
                        if variant == 0:
                            identity_half(stmt, rec, wit)
                            rec.case([str(stmt), variant], nontrivial=bool(stmt.get_read_variables()))
            return n
    except CaseTimeout:
        rec.timeout()
        return 0


# {{{ hand-built single statements

NUMS = ["x", "y", "<state>s", "<p>k", "<t>", "<dt>"]
ARRS = ["arr", "<state>v", "idx"]     # idx holds integers


def g_num(rng, d, extra=()):
    r = rng.random()
    pool = NUMS + list(extra)
    if d <= 0 or r < 0.3:
        return ["var", rng.choice(pool)] if rng.random() < 0.8 else ["num", rng.choice([2, 0.5, 3])]
    if r < 0.34:
        # a term with an absorbing constant, written out ('0*x', '0/x'): whatever becomes of it, the declared
        # sets must cover what is read and survive the identity mapping
        inner = ["var", rng.choice(pool)]
        return rng.choice([["*", ["num", 0], inner], ["*", inner, ["num", 0]], ["/", ["num", 0], inner],
                           ["+", ["*", ["num", 0], inner], g_num(rng, d - 1, extra)]])
    if r < 0.5:
        return [rng.choice(["+", "*"]), g_num(rng, d - 1, extra), g_num(rng, d - 1, extra)]
    if r < 0.53:
        # an index tuple (a matrix handed in by the user): every index is read
        return ["msub", ["var", "mat"], g_int(rng, d - 1, extra),
                ["var", "only_in_sub2"] if rng.random() < 0.4 else g_int(rng, d - 1, extra)]
    if r < 0.6:
        return ["sub", ["var", rng.choice(ARRS[:2])], g_int(rng, d - 1, extra)]
    if r < 0.7:
        return ["if", ["cmp", "<", g_num(rng, d - 1, extra), g_num(rng, d - 1, extra)],
                g_num(rng, d - 1, extra), g_num(rng, d - 1, extra)]
    if r < 0.85:
        kws = rng.sample(["k", "m"], rng.choice([0, 1, 2]))
        # 'scale' and 'y' are untagged function names; the state also holds VARIABLES called scale and y
        fn = "<func>f" if rng.random() < 0.8 else rng.choice(["scale", "y"])
        return ["call", fn, [g_num(rng, d - 1, extra) for _ in range(rng.choice([0, 1, 2]))],
                {k: g_num(rng, d - 1, extra) for k in kws}]
    if r < 0.93:
        return ["call", "<builtin>norm_2", [["var", rng.choice(ARRS[:2])]], {}]
    return ["/", g_num(rng, d - 1, extra), ["num", 2]]


def g_int(rng, d, extra=()):
    r = rng.random()
    ints = ["n", "j0"] + list(extra)
    if d <= 0 or r < 0.5:
        return ["var", rng.choice(ints)] if rng.random() < 0.7 else ["num", rng.choice([0, 1, 2])]
    if r < 0.8:
        return ["sub", ["var", "idx"], g_int(rng, d - 1, extra)]     # subscript inside subscript
    return ["+", g_int(rng, d - 1, extra), ["num", 0]]


def single_state(rng):
    return {"x": rng.choice([1.5, -0.5]), "y": rng.choice([2.0, 0.25]), "<state>s": rng.choice([3.0, 0.5]),
            "<p>k": 1.5, "<t>": 0.5, "<dt>": 0.25, "n": rng.choice([1, 2]), "j0": rng.choice([0, 1]),
            "arr": np.array([1.0, 2.0, 3.0, 4.0]), "<state>v": np.array([0.5, 0.25, 4.0, 8.0]),
            "idx": np.array([1, 0, 2, 1]), "<cond>g": rng.random() < 0.7, "<cond>h": rng.random() < 0.7,
            "only_in_bound": 2, "only_in_sub": 1, "only_in_sub2": rng.choice([0, 2]), "only_in_guard": True,
            "only_in_time": 0.75, "mat": np.arange(9.0).reshape(3, 3) + 0.5,
            "scale": rng.choice([0.5, 2.0])}


def gen_single(rng):
    from dagrt.language import (Assign, AssignFunctionCall, AssignImplicit, FailStep, Raise, SwitchPhase,
                                YieldState)
    from pymbolic import var as _var
    from pymbolic.primitives import LogicalAnd, LogicalNot, Lookup, Variable
    from pymbolic.mapper.substitutor import SubstitutionMapper
    # attribute lookups ('y.real', as the parser produces and the interpreter evaluates with getattr): in some
    # statements every occurrence of a few chosen variables is read through '.real'
    chosen = set()
    if rng.random() < 0.25:
        chosen = set(rng.sample(["x", "y", "<state>s", "<p>k", "n", "j0", "only_in_bound", "only_in_sub", "only_in_sub2",
                                 "only_in_guard", "only_in_time", "<cond>g"], rng.choice([1, 2, 4])))
    _sm = SubstitutionMapper(lambda v: Lookup(v, "real") if isinstance(v, Variable) and v.name in chosen else None)

    def to_pym(e, _orig=globals()["to_pym"]):
        r = _orig(e)
        return _sm(r) if chosen else r

    def var(n):
        return Lookup(_var(n), "real") if n in chosen else _var(n)
    kind = rng.choice(["assign", "assign", "elem", "loop", "loop2", "call", "yield", "fail", "switch", "raise",
                       "implicit", "accum"])
    g = rng.random()
    cond = True
    if g < 0.25:
        cond = var("<cond>g")
    elif g < 0.4:
        cond = LogicalAnd((var("<cond>g"), LogicalNot(var("<cond>h"))))
    elif g < 0.5:
        cond = var("only_in_guard")
    kw = dict(id="s0", condition=cond)
    if kind == "accum":
        # whole-array accumulation in a loop, 'acc <- acc + arr[i]*k [i=0..n]'; in the state 'acc' is THE SAME
        # array object as <state>v (as after the plain assignment 'acc <- <state>v'): only acc may change
        term = rng.choice([["*", ["sub", ["var", "arr"], ["var", "i"]], ["var", "<p>k"]], ["var", "i"],
                           ["*", ["var", "idx"], ["var", "i"]], g_num(rng, 1, extra=("i",))])
        rhs = ["+", ["var", "acc"], term] if rng.random() < 0.7 else ["+", term, ["var", "acc"]]
        return Assign("acc", (), to_pym(rhs), loops=[("i", 0, to_pym(rng.choice([["num", 2], ["var", "n"]])))], **kw)
    if kind == "assign":
        return Assign(rng.choice(["x", "z", "<state>s"]), (), to_pym(g_num(rng, 3)), **kw)
    if kind == "elem":
        sub = rng.choice([g_int(rng, 2), ["var", "only_in_sub"]])
        return Assign(rng.choice(["arr", "<state>v"]), (to_pym(sub),), to_pym(g_num(rng, 2)), **kw)
    if kind in ("loop", "loop2"):
        hi = rng.choice([["var", "only_in_bound"], ["var", "n"], ["num", 2], ["sub", ["var", "idx"], ["num", 2]]])
        lo = rng.choice([["num", 0], ["var", "j0"]])
        loops = [("i", to_pym(lo), to_pym(hi))]
        if kind == "loop2":
            loops.append(("j", 0, to_pym(rng.choice([["var", "n"], ["num", 1]]))))
        sub = rng.choice([["var", "i"], ["sub", ["var", "idx"], ["var", "i"]]])
        return Assign(rng.choice(["arr", "<state>v"]), (to_pym(sub),), to_pym(g_num(rng, 2, extra=("i",))),
                      loops=loops, **kw)
    def arg():
        # sometimes a container of expressions, as the parser produces for "(a, b)" or "[c, <dt>]"
        r = rng.random()
        if r < 0.15:
            return tuple(to_pym(g_num(rng, 1)) for _ in range(rng.choice([1, 2, 3])))
        if r < 0.25:
            return [to_pym(g_num(rng, 1)) for _ in range(rng.choice([1, 2]))]
        return to_pym(g_num(rng, 2))
    if kind == "call":
        kws = rng.sample(["k", "m"], rng.choice([0, 1, 2]))
        return AssignFunctionCall(("r1",), "<func>f", tuple(arg() for _ in range(rng.choice([0, 1, 2]))),
                                  {k: arg() for k in kws}, **kw)
    if kind == "yield":
        time = rng.choice([["var", "only_in_time"], ["+", ["var", "<t>"], ["var", "<dt>"]], ["num", 0],
                           # a time held in a variable that nothing has set in this state (the evaluator answers
                           # None for it): whatever the interpreter does then, it may only read what is declared
                           ["var", "t_unset"]])
        return YieldState(expression=arg(), component_id="y", time=to_pym(time),
                          time_id="fin", **kw)
    if kind == "fail":
        return FailStep(**kw)
    if kind == "switch":
        return SwitchPhase("main", **kw)
    if kind == "raise":
        return Raise(type("E", (Exception,), {"_vf_program_error": True}), "m", **kw)
    return AssignImplicit(("x",), ("xs",), (to_pym(["-", ["var", "xs"], g_num(rng, 2)]),),
                          {"guess": to_pym(g_num(rng, 1))}, "solver", **kw)


def check_single(stmt, rng, rec):
    from dagrt.exec_numpy import FailStepException, NumpyInterpreter, TransitionEvent
    from dagrt.language import AssignImplicit, DAGCode, ExecutionPhase
    wit = {"statement": str(stmt), "kind": type(stmt).__name__}
    rec.count("handbuilt_statements")
    identity_half(stmt, rec, wit)
    if isinstance(stmt, AssignImplicit):
        rec.case([str(stmt), "identity-only"], nontrivial=True)
        return
    dag = DAGCode({"main": ExecutionPhase("main", "main", [stmt])}, "main")

    def f(*a, **k):
        tot = 1.0
        for v in list(a) + list(k.values()):
            tot = tot + float(np.sum(np.asarray(v, dtype=float)))
        return tot
    for si in range(3):
        interp = NumpyInterpreter(dag, {"<func>f": f, "scale": f, "y": f})
        st = backends.RecStore()
        st.enabled = False
        interp.context = st
        interp.eval_mapper.context = st
        for k, v in single_state(rng).items():
            dict.__setitem__(st, k, backends.copyval(v))
        if getattr(stmt, "assignee", None) == "acc":
            dict.__setitem__(st, "acc", dict.__getitem__(st, "<state>v"))   # two names, one array object
        else:
            dict.__setitem__(st, "acc", backends.copyval(dict.__getitem__(st, "<state>v")))
        before = backends.array_fingerprints(st)
        st.enabled = True
        try:
            if interp.evaluate_condition(stmt):
                getattr(interp, stmt.exec_method)(stmt)
        except (FailStepException, TransitionEvent):
            pass
        except Exception as ex:
            if not getattr(type(ex), "_vf_program_error", False):
                # the statement could not be carried out in this state; what it read before stopping was read
                st.enabled = False
                rec.undef("handbuilt-" + type(ex).__name__)
                judge(stmt, {n for (_, k, n) in st.log if k == "r"}, set(), rec,
                      dict(wit, state=si, stopped_with=type(ex).__name__))
                continue
        st.enabled = False
        reads = {n for (_, k, n) in st.log if k == "r"}
        writes = {n for (_, k, n) in st.log if k in ("w", "d")}
        after = backends.array_fingerprints(st)
        for k, (ident, data) in after.items():
            b = before.get(k)
            if b is not None and b[0] == ident and b[1] != data:
                writes.add(k)
        judge(stmt, reads, writes, rec, dict(wit, state=si))
        rec.case([str(stmt), si], nontrivial=bool(reads))

# }}}


def run_shard(shard, rec):
    rng = random.Random(shard["seed"])
    if shard["kind"] == "prog":
        for _ in range(shard["count"]):
            script = prog.Gen(rng, profile="py").script()
            check_program(script, rec)
            rec.count("programs")
    else:
        for _ in range(shard["count"]):
            stmt = gen_single(rng)
            check_single(stmt, rng, rec)


def replay(witness, rec):
    if "script" in witness:
        check_program(witness["script"], rec)
        rec.case(witness["script"])
    else:
        rec.notes.append("hand-built statement witnesses are re-generated from the seed, not replayed")
