"""C16 — fusing two methods runs both on shared persistent state without interference.

Monitors: (A) structural matcher over what the real fuse_two_dags returns
(statement bijection up to the *observed* renaming, ids, dependency edges,
which names were renamed); (B) differential execution in the real interpreter:
fused vs each method alone, lock-step over k steps, for pairs that write
disjoint persistent variables."""
import itertools
import random

from vf import backends, prog
from vf.runner import CaseTimeout, case_alarm
from vf.rseq import is_persistent
from vf.sexpr import from_pym, values_equal, variables

ID = "C16"
LEVEL = "exploration"
RULE = ("pairs of G_prog scripts that agree on phase names, initial phase and default transitions, share one "
        "function table, <t>, <dt> and a read-only <state>in, write disjoint persistent variables, and draw "
        "their temporaries, loop counters and statement ids from the same pools (so they overlap; 40%: one method "
        "registers functions under plain names the other may use for temporaries); predicates in "
        "{none given, rename everything non-persistent, rename nothing, random subset}; plus disagreeing pairs "
        "(different initial phase / default transition) which must raise ValueError. distinct = canonical JSON of "
        "(script1, script2, predicate); non-trivial = the two methods share >=1 temporary name and >=1 statement id")
ASSUMPTIONS = [
    "the two methods do not end steps (no fail/switch/raise) in the differential class: one method cutting a "
    "step short legitimately affects the other",
    "yield order between the two methods is unconstrained; per-method sub-sequences are compared",
]
ANCHORS = ["dagrt.transform:fuse_two_dags", "dagrt.transform:fuse_two_phases",
           "dagrt.language:Assign.map_expressions"]
MIN_NONTRIVIAL = {"quick": 250, "thorough": 42000}
REQUIRED_COUNTERS = {"quick": ["fusions", "statements_matched", "fused_steps_compared", "disagreeing_pairs"],
                     "thorough": ["fusions", "statements_matched", "fused_steps_compared", "disagreeing_pairs"]}
SHARD_TIMEOUT = {"quick": 900, "thorough": 3400}


def plan(tier, seed):
    per = 110 if tier == "quick" else 15000
    return [{"seed": f"C16:{seed}:{k}", "count": per} for k in range(16)]


def gen_pair(rng):
    nph = rng.choice([1, 1, 2])
    names = rng.sample(["main", "init", "primary"], nph)
    plan_ = [(n, rng.choice(names)) for n in names]
    funcs = {}
    kw = dict(profile="py", allow_end=False, advance_time=False, phase_plan=plan_, funcs=funcs,
              readonly_state=["<state>in", "<state>scale_<func>f"], max_ops=rng.choice([4, 6, 8]),
              local_time_bias=0.6)
    # sometimes one method's ordinary temporaries are named like the other's loop counters
    cross = rng.random() < 0.35
    kwa = dict(kw, counters=["c1", "c2", "c3"], extra_locals=["i", "j", "ii"]) if cross else kw
    if rng.random() < 0.4:
        # the method written first registers user functions under plain names ('limit', 'u'): the other method's
        # temporaries may carry the same names (functions and variables live in separate namespaces)
        kwa = dict(kwa, shadow_funcs=True, call_bias=0.25)
        if rng.random() < 0.5:
            a = prog.Gen(rng, persist_tag="_a", components=["ya", "aux_a"], **kwa).script()
            b = prog.Gen(rng, persist_tag="_b", components=["yb", "aux_b"], **kw).script()
        else:
            b = prog.Gen(rng, persist_tag="_b", components=["yb", "aux_b"], **kwa).script()
            a = prog.Gen(rng, persist_tag="_a", components=["ya", "aux_a"], **kw).script()
    elif rng.random() < 0.5:
        a = prog.Gen(rng, persist_tag="_a", components=["ya", "aux_a"], **kwa).script()
        b = prog.Gen(rng, persist_tag="_b", components=["yb", "aux_b"], **kw).script()
    else:
        a = prog.Gen(rng, persist_tag="_a", components=["ya", "aux_a"], **kw).script()
        b = prog.Gen(rng, persist_tag="_b", components=["yb", "aux_b"], **kwa).script()
    for s in (a, b):
        s["run"] = {"max_steps": rng.randint(1, 3)}
        s["t0"], s["dt0"] = 0.5, 0.25
    b["run"] = a["run"]
    st = dict(a["state"])
    st.update(b["state"])
    a["state"] = b["state"] = st
    return a, b


PREDS = ["none", "nonpersistent", "nothing", "subset", "all-but-time"]


def make_pred(kind, rng, names):
    if kind == "none":
        return None, None
    if kind == "nonpersistent":
        f = lambda n: not is_persistent(n) and not n.startswith("<ret_")   # noqa: E731
        return f, f
    if kind == "nothing":
        f = lambda n: False   # noqa: E731
        return f, f
    if kind == "all-but-time":
        # the caller asks for EVERY clashing name to be renamed, persistent ones included
        f = lambda n: n not in ("<t>", "<dt>")   # noqa: E731
        return f, f
    chosen = {n for n in names if not is_persistent(n) and rng.random() < 0.5}
    f = lambda n: n in chosen   # noqa: E731
    return f, f


def stmt_names(stmt):
    """Variable-name occurrences of a statement in a fixed traversal order
    (own traversal via from_pym), loop counters included."""
    out = []

    def ex(e):
        if e is True or e is False or e is None:
            return
        try:
            s = from_pym(e)
        except ValueError:
            return
        walk(s)

    def walk(s):
        k = s[0]
        if k == "var":
            out.append(s[1])
        elif k in ("num", "cnum", "bool"):
            return
        elif k == "cmp":
            walk(s[2])
            walk(s[3])
        elif k == "call":
            for a in s[2]:
                walk(a)
            for n in sorted(s[3]):
                walk(s[3][n])
        else:
            for x in s[1:]:
                if isinstance(x, list):
                    walk(x)
    ex(getattr(stmt, "condition", True))
    if hasattr(stmt, "lhs"):
        ex(stmt.lhs)
        ex(stmt.rhs)
        for ident, lo, hi in getattr(stmt, "loops", []):
            out.append(ident)
            ex(lo)
            ex(hi)
    if hasattr(stmt, "assignees") and hasattr(stmt, "function_id"):
        out.extend(stmt.assignees)
        for p in stmt.parameters:
            ex(p)
        for n in sorted(stmt.kw_parameters):
            ex(stmt.kw_parameters[n])
    if hasattr(stmt, "time"):
        ex(stmt.expression)
        ex(stmt.time)
    return out


def shape(stmt):
    import re
    s = str(stmt)
    return type(stmt).__name__ + ":" + re.sub(r"[A-Za-z_<>][A-Za-z0-9_<>^*']*", "#", s)


def structural(d1, d2, fused, pred, rec, wit):
    """Returns True if a violation was reported."""
    names = set(d1.phases) | set(d2.phases)
    if set(fused.phases) != names:
        rec.violation("fused-phase-set-wrong", f"{sorted(fused.phases)} vs {sorted(names)}", wit)
        return True
    if fused.initial_phase != d1.initial_phase:
        rec.violation("fused-initial-phase-wrong", f"{fused.initial_phase}", wit)
        return True
    for pn in sorted(names):
        p1, p2, pf = d1.phases.get(pn), d2.phases.get(pn), fused.phases[pn]
        if p1 is None or p2 is None:
            continue
        s1, s2, sf = list(p1.statements), list(p2.statements), list(pf.statements)
        if pf.next_phase != p1.next_phase:
            rec.violation("fused-default-transition-wrong", f"{pn}: {pf.next_phase}", wit)
            return True
        ids = [s.id for s in sf]
        if len(set(ids)) != len(ids):
            rec.violation("fused-duplicate-statement-ids", f"{pn}: {sorted(ids)}", wit)
            return True
        if len(sf) != len(s1) + len(s2):
            rec.violation("fused-statement-count-wrong",
                          f"{pn}: {len(s1)} + {len(s2)} statements fused into {len(sf)}", wit)
            return True
        byid = {s.id: s for s in sf}
        for s in s1:
            f = byid.get(s.id)
            if f is None or str(f) != str(s) or set(f.depends_on) != set(s.depends_on):
                rec.violation("first-method-statement-altered",
                              f"{pn}: [{s.id}] {s} became {f if f is None else str(f)}", wit)
                return True
        rest = [s for s in sf if s.id not in {x.id for x in s1}]
        ids1 = {x.id for x in s1}
        # match statements of the second method to `rest`
        cands = {}
        for s in s2:
            cs = [r for r in rest if shape(r) == shape(s) and len(stmt_names(r)) == len(stmt_names(s))]
            # prefer the statement that kept its id
            cs.sort(key=lambda r: r.id != s.id)
            cands[s.id] = cs
            if not cs:
                rec.violation("second-method-statement-missing",
                              f"{pn}: no fused statement corresponds to [{s.id}] {s}; remaining: "
                              + "; ".join(f"[{r.id}] {r}" for r in rest), wit)
                return True
        order = sorted(s2, key=lambda s: len(cands[s.id]))
        sol = {}

        def deps_ok():
            im = {x.id: sol[x.id].id for x in s2}
            return all(set(sol[x.id].depends_on) == {im.get(d, d) for d in x.depends_on} for x in s2)

        with_deps = [True]
        budget = [20000]

        def bt(i, rho, used):
            if i == len(order):
                # (statements with the same text are interchangeable for the renaming: among those assignments
                # the one that also maps the dependencies is the correspondence)
                return rho if (not with_deps[0] or deps_ok()) else None
            budget[0] -= 1
            if budget[0] < 0:
                return None
            s = order[i]
            for r in cands[s.id]:
                if r.id in used:
                    continue
                rho2 = dict(rho)
                ok = True
                for a, b in zip(stmt_names(s), stmt_names(r)):
                    if rho2.setdefault(a, b) != b:
                        ok = False
                        break
                if not ok:
                    continue
                sol[s.id] = r
                res = bt(i + 1, rho2, used | {r.id})
                if res is not None:
                    return res
            return None
        rho = bt(0, {}, set())
        if rho is None:
            # no correspondence that maps names AND dependencies: look for one that maps the names at least, to
            # say which of the two went wrong
            exhausted = budget[0] < 0
            with_deps[0] = False
            budget[0] = 20000
            rho = bt(0, {}, set())
            if exhausted and rho is not None:
                # (the search with dependencies ran out of budget: undecided, not a violation)
                rec.count("correspondence_search_out_of_budget")
                continue
        if rho is None:
            # find out why: is it a half-renamed loop counter?
            for s in s2:
                for r in cands[s.id]:
                    m = {}
                    for a, b in zip(stmt_names(s), stmt_names(r)):
                        if m.setdefault(a, b) != b:
                            loops = {i for i, _, _ in getattr(s, "loops", [])}
                            mech = ("loop-counter-renamed-in-expressions-but-not-in-loop-header"
                                    if a in loops else "inconsistent-renaming-within-statement")
                            rec.violation(mech, f"{pn}: [{s.id}] {s} became [{r.id}] {r}: {a!r} maps to both "
                                          f"{m[a]!r} and {b!r}", wit)
                            return True
            rec.violation("no-consistent-renaming", f"{pn}: statements of the second method cannot be matched "
                          "to fused statements under one variable renaming", wit)
            return True
        rec.count("statements_matched", len(s2))
        idmap = {s.id: sol[s.id].id for s in s2}
        for s in s2:
            r = sol[s.id]
            want = {idmap.get(d, d) for d in s.depends_on}
            if set(r.depends_on) != want:
                rec.violation("second-method-dependencies-not-mapped",
                              f"{pn}: [{s.id}]->[{r.id}] depends on {sorted(r.depends_on)}, expected {sorted(want)}", wit)
                return True
        vals = list(rho.values())
        if len(set(vals)) != len(vals):
            rec.violation("renaming-not-injective", f"{pn}: {rho}", wit)
            return True
        vars1 = set()
        counters = set()
        for s in s1:
            vars1 |= set(stmt_names(s))
        for s in s1 + s2:
            counters |= {i for i, _, _ in getattr(s, "loops", [])}
        # only names that are loop counters and nothing else, in both methods, may stay shared
        for s in s1 + s2:
            counters -= set(s.get_written_variables())
        vars2 = set(rho)
        for v, w in sorted(rho.items()):
            clash = v in vars1
            if pred is None:
                must_keep = is_persistent(v) or v.startswith("<ret_")
                may_rename = not must_keep
            else:
                must_keep = not pred(v)
                may_rename = pred(v)
            if must_keep and w != v:
                kind = ("time-or-step-size" if v in ("<t>", "<dt>") else
                        "persistent-variable" if is_persistent(v) else "name-the-predicate-excludes")
                rec.violation(f"fusion-renames-{kind}" + ("" if pred is None else "-despite-predicate"),
                              f"{pn}: {v!r} of the second method became {w!r}", wit)
                return True
            # (a loop counter lives only inside its own statement: sharing the name is harmless)
            if pred is not None and clash and may_rename and is_persistent(v) and w == v:
                rec.violation("clashing-persistent-name-not-renamed-despite-predicate",
                              f"{pn}: the predicate asks for {v!r} to be renamed; it is used by both methods and "
                              f"was left shared", wit)
                return True
            if clash and may_rename and not is_persistent(v) and w == v and v not in counters:
                rec.violation("clashing-temporary-not-renamed" + ("" if pred is None else "-despite-predicate"),
                              f"{pn}: temporary {v!r} is used by both methods and was left shared", wit)
                return True
            if w != v and (w in vars1 or w in vars2):
                rec.violation("renamed-onto-existing-name", f"{pn}: {v!r} -> {w!r} which is already in use", wit)
                return True
    return False


def run_dag(dag, script, funcs, nsteps):
    return backends.run_interpreter(dag, dict(script, run={"max_steps": nsteps}), funcs)


def function_symbols(dag):
    """Counter of the names in call position anywhere in the description (call statements and calls nested in
    expressions)."""
    from collections import Counter
    from vf.sexpr import from_pym
    out = Counter()

    def walk(e):
        if not isinstance(e, list) or not e:
            return
        if e[0] == "call":
            out[e[1]] += 1
            for x in e[2]:
                walk(x)
            for v in (e[3] if len(e) > 3 else {}).values():
                walk(v)
            return
        for x in e[1:]:
            walk(x)
    for ph in dag.phases.values():
        for st in ph.statements:
            fid = getattr(st, "function_id", None)
            if isinstance(fid, str):
                out[fid] += 1
            seen = []

            def grab(e, seen=seen):
                seen.append(e)
                return e
            try:
                st.map_expressions(grab, include_lhs=True)
            except TypeError:
                st.map_expressions(grab)
            for e in seen:
                try:
                    walk(from_pym(e))
                except (ValueError, TypeError):
                    pass
    return out


def variable_names(dag):
    out = set()
    for ph in dag.phases.values():
        for st in ph.statements:
            out |= set(st.get_read_variables()) | set(st.get_written_variables())
    return out


def _base(n):
    import re
    return re.sub(r"(_\d+)+$", "", n)


def differential(a, b, d1, d2, fused, rec, wit):
    funcs = prog.python_functions(a)
    funcs.update(prog.python_functions(b))
    # the functions a description calls are not among its identifiers: fusion renames variables, never functions
    want = function_symbols(d1) + function_symbols(d2)
    got = function_symbols(fused)
    rec.count("fused_descriptions_whose_called_functions_were_compared")
    extra, missing = got - want, want - got
    if extra or missing:
        # (the open finding: the renamed symbol belongs to a function registered under a plain name that BOTH
        # methods also use for a per-step variable -- a legitimate clash of variables, carried over to the call)
        clash = {n for n in variable_names(d1) & variable_names(d2) if not n.startswith("<")}
        known = (bool(missing) and all(m in clash for m in missing)
                 and sum(extra.values()) == sum(missing.values())
                 and all(any(_base(e) == _base(m) for m in missing) for e in extra))
        if known:
            rec.violation("fusion-renames-function-symbol-of-nested-call-named-like-a-clashing-temporary",
                          f"the fused description calls {dict(extra)} instead of {dict(missing)}: the function symbol "
                          f"of a call nested in an expression was renamed along with the second method's temporary "
                          f"of the same name", wit)
        else:
            rec.violation("fused-description-calls-other-functions-than-the-two-methods",
                          f"calls added {dict(extra)}, calls lost {dict(missing)}", wit)
        return True
    n = a["run"]["max_steps"]
    try:
        r1 = run_dag(d1, a, funcs, n)
        r2 = run_dag(d2, b, funcs, n)
    except Exception:
        return False
    if r1.crash or r2.crash:
        rec.undef("method-alone-crashes")
        return False
    rf = run_dag(fused, a, funcs, n)
    if rf.crash:
        rec.violation(f"fused-run-crashes-{rf.crash[0]}", f"{rf.crash[0]}: {rf.crash[1]}", wit)
        return True
    for label, r, comps, tag in (("first", r1, ("ya", "aux_a"), "_a"), ("second", r2, ("yb", "aux_b"), "_b")):
        ya = [e for e in r.events if e[0] == "yield"]
        yf = [e for e in rf.events if e[0] == "yield" and e[3] in comps]
        if len(ya) != len(yf) or any(not values_equal(x, y, rtol=1e-12) for ea, ef in zip(ya, yf)
                                     for x, y in zip(ea, ef)):
            rec.violation(f"fused-yields-differ-for-{label}-method",
                          f"alone: {backends.fmt(ya)}; fused: {backends.fmt(yf)}", wit)
            return True
        for i, ((sa, na), (sf, nf)) in enumerate(zip(r.persist_after, rf.persist_after)):
            rec.count("fused_steps_compared")
            for k, v in sa.items():
                if tag not in k:
                    continue
                if k not in sf or not values_equal(sf[k], v, rtol=1e-12):
                    rec.violation(f"fused-persistent-result-differs-for-{label}-method",
                                  f"after step {i}: {k} alone={v!r} fused={sf.get(k)!r}", wit)
                    return True
            if na != nf:
                rec.violation("fused-next-phase-differs", f"after step {i}: {na} vs {nf}", wit)
                return True
        if len(r.persist_after) != len(rf.persist_after):
            rec.violation("fused-step-count-differs", f"{len(r.persist_after)} vs {len(rf.persist_after)}", wit)
            return True
    return False


ID_BASES = ["update", "s", "primary_1", "main_0"]


def represent(dag, seed):
    """Another presentation of the same method: statement ids re-issued from an adversarial pool (base, base_0,
    base_1, base_0_0, ... -- the numbered variants a unique-id generator would produce; dependencies may point
    from lower to higher numbers) and the statements stored in shuffled order."""
    from dagrt.language import DAGCode, ExecutionPhase
    rng = random.Random(seed)
    phases = {}
    for pn, ph in dag.phases.items():
        stmts = sorted(ph.statements, key=lambda s: s.id)
        bases = rng.sample(ID_BASES, 2)
        pool = [b + suf for b in bases for suf in ("", "_0", "_1", "_2", "_0_0", "_3")]
        rng.shuffle(pool)
        idmap = {}
        for s in stmts:
            idmap[s.id] = pool.pop() if pool and rng.random() < 0.85 else "keep_" + s.id
        new = [s.copy(id=idmap[s.id], depends_on=frozenset(idmap[d] for d in s.depends_on)) for s in stmts]
        rng.shuffle(new)
        phases[pn] = ExecutionPhase(pn, ph.next_phase, new)
    return DAGCode(phases, dag.initial_phase)


def check_pair(a, b, predkind, rng, rec, variant=None):
    from dagrt.transform import fuse_two_dags
    wit = {"a": a, "b": b, "pred": predkind, "variant": variant}
    try:
        with case_alarm(60):
            d1, d2 = prog.build(a), prog.build(b)
            if variant and variant.startswith("ids:"):
                d1, d2 = represent(d1, variant + "1"), represent(d2, variant + "2")
                rec.count("pairs_with_reissued_ids_and_shuffled_storage")
            elif variant and variant.startswith("chain:"):
                # the second operand is itself a fusion result (ids already uniquified once, stored in the
                # order the first fusion produced or reversed)
                from dagrt.language import DAGCode, ExecutionPhase
                inner = fuse_two_dags(d2, d2)
                if variant.endswith("r"):
                    inner = DAGCode({pn: ExecutionPhase(pn, ph.next_phase, list(ph.statements)[::-1])
                                     for pn, ph in inner.phases.items()}, inner.initial_phase)
                d2 = inner
                rec.count("pairs_with_fusion_result_as_operand")
            names = set()
            for ph in d2.phases.values():
                for s in ph.statements:
                    names |= set(stmt_names(s))
            pred, pred_o = make_pred(predkind, random.Random(str(sorted(names)) + predkind), sorted(names))
            hist = random.Random(str(sorted(names)) + "used").random()
            if hist < 0.5:
                # the operands have been USED before they are fused (printed, their roots and id maps looked at,
                # one of them lowered by a generator): what a description remembers about itself must not end up
                # in the fusion result
                from dagrt.codegen import PythonCodeGenerator
                for dg in ((d1, d2) if hist < 0.3 else (d1,)):
                    str(dg)
                    for ph in dg.phases.values():
                        ph.depends_on, ph.id_to_stmt
                try:
                    PythonCodeGenerator(class_name="Before")(d1)
                except Exception:
                    pass
                rec.count("pairs_used_before_fusion")
            try:
                if pred is None:
                    fused = fuse_two_dags(d1, d2)
                else:
                    fused = fuse_two_dags(d1, d2, should_disambiguate_name=pred)
            except Exception as ex:
                rec.violation(f"fusion-raises-{type(ex).__name__}", f"{type(ex).__name__}: {ex}", wit)
                return
            rec.count("fusions")
            rec.count("predicate_" + predkind)
            if structural(d1, d2, fused, pred_o, rec, wit):
                return
            if predkind in ("none", "nonpersistent") and not (variant or "").startswith("chain:"):
                # (methods whose result depends on whether a plain array copy shares storage -- the alias-sensitive
                # class of section 1 -- may legitimately come out differently under the fused phase's schedule)
                sensitive = False
                for sc in (a, b):
                    try:
                        rs, _ = backends.rseq_result(sc)
                        sensitive = sensitive or rs.alias_sensitive
                    except Exception:
                        pass
                if sensitive:
                    rec.count("alias_sensitive_pairs_not_run")
                else:
                    differential(a, b, d1, d2, fused, rec, wit)
    except CaseTimeout:
        rec.timeout()


def check_disagreeing(a, b, rng, rec):
    from dagrt.transform import fuse_two_dags
    b2 = dict(b)
    how = rng.choice(["initial", "next"])
    if how == "initial" and len(b["phases"]) > 1:
        b2["initial"] = [p["name"] for p in b["phases"] if p["name"] != b["initial"]][0]
    else:
        how = "next"
        b2["phases"] = [dict(p) for p in b["phases"]]
        b2["phases"][0]["next"] = "elsewhere"
        b2["phases"].append({"name": "elsewhere", "next": "elsewhere", "body": []})
        a = dict(a, phases=list(a["phases"]) + [{"name": "elsewhere", "next": "elsewhere", "body": []}])
    rec.count("disagreeing_pairs")
    try:
        fuse_two_dags(prog.build(a), prog.build(b2))
    except ValueError:
        return
    except Exception as ex:
        rec.violation(f"disagreeing-pair-raises-{type(ex).__name__}", f"{how}: {type(ex).__name__}: {ex}",
                      {"a": a, "b": b2, "pred": "none"})
        return
    rec.violation(f"disagreeing-pair-accepted-{how}",
                  f"methods disagree on the {how} phase, fuse_two_dags returned normally",
                  {"a": a, "b": b2, "pred": "none"})


def shared(a, b):
    na, nb = set(), set()
    for ph in a["phases"]:
        prog.all_names(ph["body"], na)
    for ph in b["phases"]:
        prog.all_names(ph["body"], nb)
    return {n for n in na & nb if not is_persistent(n)}


def run_shard(shard, rec):
    rng = random.Random(shard["seed"])
    for i in range(shard["count"]):
        a, b = gen_pair(rng)
        predkind = PREDS[i % 5] if i % 3 else "none"
        check_pair(a, b, predkind, rng, rec)
        if i % 2 == 0:
            check_pair(a, b, predkind, rng, rec, variant=f"ids:{shard['seed']}:{i}")
        if i % 4 == 1:
            check_pair(a, b, predkind, rng, rec, variant="chain:" + ("r" if i % 8 == 1 else "f"))
        if i % 5 == 0:
            check_disagreeing(a, b, rng, rec)
        rec.case([a, b, predkind], nontrivial=bool(shared(a, b)),
                 sample={"pred": predkind, "shared_temporaries": sorted(shared(a, b)), "a": a, "b": b})


def replay(witness, rec):
    check_pair(witness["a"], witness["b"], witness.get("pred", "none"), random.Random(0), rec,
               variant=witness.get("variant"))
    rec.case(witness)
