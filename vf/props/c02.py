"""C02 — recorded dependencies make every admissible schedule equal to program order.

Monitors on the phase built by the real CodeBuilder: (i) schedule explorer: a
harness-side scheduler drives the real interpreter's own evaluate_condition /
exec_* methods in many linear extensions of the emitted depends_on graph and
compares events + stores with program order and with R_seq; (ii)
conflict-ordering monitor: per-statement dynamic read/write sets observed by
RecStore in the program-order run; every conflicting pair must be connected in
the transitive closure of depends_on; (iii) build observer: names issued by
the builder never equal a name the user already used."""
import itertools
import random

from vf import backends, prog
from vf.runner import CaseTimeout, case_alarm
from vf.rseq import is_persistent
from vf.sexpr import Undefined, values_equal

ID = "C02"
LEVEL = "exploration"
RULE = ("single-phase G_prog 'py' scripts biased to reads in right-hand sides, guards, subscripts on both sides, "
        "loop bounds, call arguments, yielded expressions and times, overwrite chains, guarded writes and barriers "
        "(yield/fail/switch) between state updates, user names that look like builder names; each built phase is "
        "executed from 2 input states under all linear extensions when <=400, else 150 random-priority topological "
        "sorts plus adversarial orders (reverse-priority, latest-first, lowering order). distinct = canonical JSON "
        "of the script; non-trivial = >=5 statements, >=2 distinct schedules executed, >=1 dependency")
ASSUMPTIONS = [
    "for steps cut short by fail/switch/raise only events and the persistent store are compared; for completed "
    "steps the entire store (loop counters aside)",
    "user names introduced after a fresh name was issued are out of scope (fresh_var_name documents 'not in use')",
    "cases undefined in the reference semantics are excluded",
]
ANCHORS = ["dagrt.language:CodeBuilder._add_statement", "dagrt.language:CodeBuilder.fresh_var_name",
           "dagrt.language:CodeBuilder.if_", "dagrt.language:CodeBuilder.else_"]
MIN_NONTRIVIAL = {"quick": 500, "thorough": 24500}
REQUIRED_COUNTERS = {"quick": ["schedules_executed", "conflict_pairs_checked", "fresh_names_observed",
                               "stores_compared"],
                     "thorough": ["schedules_executed", "conflict_pairs_checked", "fresh_names_observed",
                                  "stores_compared"]}
SHARD_TIMEOUT = {"quick": 900, "thorough": 3400}


def plan(tier, seed):
    per = 70 if tier == "quick" else 4500
    return [{"seed": f"C02:{seed}:{k}", "count": per, "nsched": 150 if tier == "quick" else 300}
            for k in range(16)]


def linear_extensions(ids, deps, cap):
    """All linear extensions (generator), stops after cap."""
    n = [0]
    ids = list(ids)

    def rec_(done, doneset):
        if n[0] >= cap:
            return
        if len(done) == len(ids):
            n[0] += 1
            yield list(done)
            return
        for x in ids:
            if x not in doneset and all(d in doneset for d in deps[x]):
                done.append(x)
                doneset.add(x)
                yield from rec_(done, doneset)
                done.pop()
                doneset.remove(x)
    yield from rec_([], set())


def random_extension(rng, ids, deps, prio=None):
    prio = prio or {x: rng.random() for x in ids}
    done, doneset = [], set()
    remaining = set(ids)
    while remaining:
        ready = [x for x in remaining if all(d in doneset for d in deps[x])]
        x = min(ready, key=lambda y: prio[y])
        done.append(x)
        doneset.add(x)
        remaining.remove(x)
    return done


def closure(deps):
    reach = {}

    def r(x):
        if x in reach:
            return reach[x]
        acc = set()
        reach[x] = acc
        for d in deps[x]:
            acc.add(d)
            acc |= r(d)
        return acc
    for x in deps:
        r(x)
    return reach


def compare_stores(a, b, names):
    for k in sorted(names):
        if (k in a) != (k in b):
            return f"{k} present: {k in a} vs {k in b}"
        if k in a and not values_equal(a[k], b[k], rtol=1e-12):
            return f"{k}: {a[k]!r} vs {b[k]!r}"
    return None


def check_script(script, rec, rng, nsched):
    wit = {"script": script}
    try:
        with case_alarm(60):
            try:
                from vf.rseq import RSeq
                rs = RSeq(script)
                rs.step()                       # exactly one step, whatever its outcome
                ref = backends.Result()
                ref.events = [e[:5] if e[0] == "yield" else e for e in rs.events]
            except Undefined as u:
                rec.undef(str(u))
                return False
            if rs.alias_sensitive:
                rec.undef("alias-sensitive-element-write")
                return False
            obs = prog.BuildObserver()
            dag = prog.build(script, obs)
            rec.count("fresh_names_observed", len(obs.issued))
            if obs.collisions:
                rec.violation("builder-fresh-name-collides-with-user-name",
                              f"the builder issued {obs.collisions} although the user already used that name", wit)
                return True
            if len(set(obs.issued)) != len(obs.issued):
                rec.violation("builder-fresh-name-issued-twice", f"{obs.issued}", wit)
                return True
            funcs = prog.python_functions(script)
            phase = dag.phases[script["initial"]]
            ids = backends.program_order(phase)
            deps = {s.id: sorted(s.depends_on) for s in phase.statements}
            for x, ds in deps.items():
                for d in ds:
                    if d not in deps:
                        rec.violation("dependency-on-unknown-statement", f"{x} depends on {d}", wit)
                        return True
            counters = set()
            for s in phase.statements:
                counters |= {i for i, _, _ in getattr(s, "loops", [])}
            # ---- schedules
            exts = list(linear_extensions(ids, deps, 401))
            if len(exts) <= 400:
                scheds = exts
                rec.count("phases_with_all_extensions")
            else:
                scheds = [ids]
                seen = {tuple(ids)}
                pos = {x: i for i, x in enumerate(ids)}
                for prio in ({x: -pos[x] for x in ids},                       # reverse program order
                             {x: (0 if "<state>" in str(phase.id_to_stmt[x]) else 1, -pos[x]) for x in ids},
                             {x: x for x in ids}):                           # lexicographic ids
                    scheds.append(random_extension(rng, ids, deps, prio))
                while len(scheds) < nsched:
                    scheds.append(random_extension(rng, ids, deps))
                uniq = []
                for s in scheds:
                    if tuple(s) not in seen or s is ids:
                        seen.add(tuple(s))
                        uniq.append(s)
                scheds = uniq
            if scheds[0] != ids:
                scheds = [ids] + [s for s in scheds if s != ids]
            user_names = obs.user_names
            for variant in (0, 1):
                override = None
                if variant:
                    override = {k: (v + 1.25 if isinstance(v, float) else v)
                                for k, v in backends.initial_context(script).items()}
                    # the perturbed state takes other branches: whether the program is alias-sensitive (an element
                    # write to an array that a plain copy made reachable under a second name) is decided per state
                    try:
                        from vf.rseq import RSeq as _RSeq
                        rs2 = _RSeq(dict(script, state={k: (v + 1.25 if isinstance(v, float) else v)
                                                        for k, v in script["state"].items()}))
                        rs2.step()
                        if rs2.alias_sensitive:
                            rec.count("perturbed_states_left_out_as_alias_sensitive")
                            break
                    except Undefined:
                        rec.count("perturbed_states_without_defined_reference")
                        break
                base = None
                for si, order in enumerate(scheds):
                    drv = backends.StepDriver(dag, script, funcs, state_override=override)
                    out = drv.run(order)
                    rec.count("schedules_executed")
                    if out["crash"] is not None and (si > 0 or variant == 0):
                        rec.violation(f"schedule-crash-{out['crash'][0]}",
                                      f"admissible schedule {order} raised {out['crash'][0]}: {out['crash'][1]}",
                                      dict(wit, schedule=order, variant=variant))
                        return True
                    if out["crash"] is not None:
                        break          # perturbed state undefined in the real semantics too: skip the variant
                    if si == 0:
                        base = out
                        if variant == 0:
                            # program order vs R_seq
                            want_ev = ref.events
                            got = out["events"] + [[{"completed": "completed", "failed": "failed"}.get(
                                out["outcome"].split(":")[0], out["outcome"].split(":")[0])]]
                            d = events_differ(out, ref, rs)
                            if d:
                                rec.violation("program-order-run-differs-from-reference:" + d[0], d[1], wit)
                                return True
                            # conflict-ordering monitor
                            if conflict_monitor(out, ids, deps, phase, counters, rec, wit):
                                return True
                        continue
                    rec.count("stores_compared")
                    if out["outcome"] != base["outcome"]:
                        rec.violation("schedule-changes-step-outcome",
                                      f"program order ends '{base['outcome']}', schedule {order} ends '{out['outcome']}'",
                                      dict(wit, schedule=order, variant=variant))
                        return True
                    if len(out["events"]) != len(base["events"]) or any(
                            not values_equal(a, b, rtol=1e-12) for ea, eb in zip(out["events"], base["events"])
                            for a, b in zip(ea, eb)):
                        rec.violation("schedule-changes-events",
                                      f"program order yields {backends.fmt(base['events'])}, schedule {order} "
                                      f"yields {backends.fmt(out['events'])}",
                                      dict(wit, schedule=order, variant=variant))
                        return True
                    names = (set(out["store"]) | set(base["store"])) - counters
                    if out["outcome"] != "completed":
                        names = {n for n in names if is_persistent(n)}
                    d = compare_stores(base["store"], out["store"], names)
                    if d:
                        kind = "persistent" if out["outcome"] != "completed" else "final"
                        rec.violation(f"schedule-changes-{kind}-store"
                                      + ("-after-cut-short-step" if out["outcome"] != "completed" else ""),
                                      f"schedule {order} vs program order: {d}",
                                      dict(wit, schedule=order, variant=variant))
                        return True
            rec.count("distinct_schedules", len(scheds))
            return len(scheds)
    except CaseTimeout:
        rec.timeout()
        return False


def events_differ(out, ref, rs):
    ev = [e for e in ref.events if e[0] == "yield"]
    if len(ev) != len(out["events"]):
        return ("event-count", f"reference yields {len(ev)} values, program-order run {len(out['events'])}")
    for a, b in zip(out["events"], ev):
        for x, y in zip(a, b):
            if not values_equal(x, y, rtol=1e-9):
                return ("event-value", f"{backends.fmt(a)} vs reference {backends.fmt(b)}")
    last = ref.events[-1][0] if ref.events else None
    oc = out["outcome"].split(":")[0]
    want = {"completed": ("completed", "switched"), "failed": ("failed",), "raised": ("raised",)}.get(last, ())
    if oc not in want:
        return ("outcome", f"reference step ends '{last}', program-order run ends '{out['outcome']}'")
    if rs.persist_after:
        pa = rs.persist_after[0][0]
        for k, v in pa.items():
            if k not in out["store"] or not values_equal(out["store"][k], v, rtol=1e-9):
                return ("persistent-value", f"{k}: run {out['store'].get(k)!r}, reference {v!r}")
    return None


def conflict_monitor(out, ids, deps, phase, counters, rec, wit):
    from dagrt.language import Assign, AssignFunctionCall, AssignImplicit
    reach = closure(deps)
    per = out["per_stmt"]
    ran = [x for x in ids if x in per]
    visible = {x for x in ran if not isinstance(phase.id_to_stmt[x], (Assign, AssignFunctionCall, AssignImplicit))
               and x in out["executed"]}
    for i, a in enumerate(ran):
        ra, wa = per[a]
        for b in ran[i + 1:]:
            rb, wb = per[b]
            rec.count("conflict_pairs_checked")
            why = None
            v = (wa & rb) - counters
            if v:
                why = ("read-after-write", v)
            v2 = (ra & wb) - counters
            if not why and v2:
                why = ("write-after-read", v2)
            v3 = (wa & wb) - counters
            if not why and v3:
                why = ("write-after-write", v3)
            if not why and a in visible and b in visible:
                why = ("externally-visible-pair", set())
            if why and a not in reach[b]:
                sa, sb = phase.id_to_stmt[a], phase.id_to_stmt[b]
                rec.violation(f"missing-dependency-{why[0]}",
                              f"[{a}] {sa}  and  [{b}] {sb}  conflict ({why[0]} on {sorted(why[1])}) "
                              f"but {b} does not (transitively) depend on {a}", wit)
                return True
    return False


def gen_script(rng):
    g = prog.Gen(rng, profile="py", nphases=1, max_ops=rng.choice([4, 6, 8, 10]), containers=True,
                 lookups=True)
    sc = g.script()
    return sc


def run_shard(shard, rec):
    rng = random.Random(shard["seed"])
    for i in range(shard["count"]):
        script = gen_script(rng)
        if i % 4 == 1:
            script["snapshots"] = True
            rec.count("programs_turned_into_a_phase_midway_as_well")
        n = check_script(script, rec, rng, shard["nsched"])
        st = prog.stats(script)
        rec.case(script, nontrivial=bool(n) and n is not True and n >= 2 and st["ops"] >= 5,
                 sample={"stats": st, "schedules": n if n is not True else None, "script": script})


def replay(witness, rec):
    check_script(witness["script"], rec, random.Random(1), 300)
    rec.case(witness["script"])
