"""C18 — constant hoisting preserves value and hoists only constants.

Monitor: recording wrappers around the two callbacks the real
collapse_constants makes (assign_func, new_var_func) + independent evaluator:
the rewritten expression with the recorded assignments substituted back must
evaluate like the original at random integer valuations under hash-based
uninterpreted function tables."""
import itertools
import random
from fractions import Fraction

from vf.runner import CaseTimeout, case_alarm
from vf.sexpr import Env, UFuncs, Undefined, ev, from_pym, has, size, to_pym, variables

ID = "C18"
LEVEL = "exploration"
RULE = ("expressions over sums, products, calls (positional/keyword, tuple-valued arguments), powers (exponent 2/3 or a variable), "
        "nested to depth<=4 with repeated subterms, x EVERY subset of their variables (<=5) as the free set; "
        "every eighth expression also has quotients, conditionals, max/min. Each result is evaluated at "
        "6 valuations x 2 function tables. distinct = canonical JSON of (expression, free set); non-trivial = "
        "the expression has an operator and at least one variable")
ASSUMPTIONS = [
    "'every valuation' is sampled: 6 random non-negative integer valuations x 2 uninterpreted function tables",
    "new_var_func returns a fresh variable on every call (what callers do)",
]
ANCHORS = ["dagrt.expression:collapse_constants",
           "dagrt.expression:_ExpressionCollapsingMapper.map_commut_assoc",
           "dagrt.expression:_ExpressionCollapsingMapper.rec",
           "dagrt.expression:_ConstantFindingMapper.combine"]
MIN_NONTRIVIAL = {"quick": 15000, "thorough": 840000}
REQUIRED_COUNTERS = {"quick": ["hoisted_assignments", "points_evaluated"],
                     "thorough": ["hoisted_assignments", "points_evaluated"]}
SHARD_TIMEOUT = {"quick": 900, "thorough": 3000}

VARS = ["a", "b", "c", "x", "<state>y"]
FUNCS = ["f", "g", "<func>h"]


def plan(tier, seed):
    per = 200 if tier == "quick" else 15000
    return [{"seed": f"C18:{seed}:{k}", "count": per} for k in range(16)]


def gen(rng, depth, pool, nd=False):
    r = rng.random()
    if depth <= 0 or r < 0.25:
        if rng.random() < 0.3:
            return ["num", rng.choice([0, 0, 1, 2, 3, 5, -1, -2])]
        return ["var", rng.choice(VARS)]
    if pool and r < 0.33:
        return rng.choice(pool)       # repeated subterm
    if r < 0.55:
        e = ["+"] + [gen(rng, depth - 1, pool, nd) for _ in range(rng.choice([2, 2, 3, 4]))]
    elif r < 0.75:
        e = ["*"] + [gen(rng, depth - 1, pool, nd) for _ in range(rng.choice([2, 2, 3, 4, 5]))]
    elif r < 0.88:
        kws = rng.sample(["k", "m"], rng.choice([0, 0, 1, 2]))

        def arg():
            # sometimes a tuple of expressions, as the parser produces for 'f((y, t + dt), dt)' / 'g(x, w=(y, 2))'
            if rng.random() < 0.15:
                return ["tuple"] + [gen(rng, max(0, depth - 2), pool, nd) for _ in range(rng.choice([1, 2, 2, 3]))]
            return gen(rng, depth - 1, pool, nd)
        e = ["call", rng.choice(FUNCS), [arg() for _ in range(rng.choice([1, 2, 3]))], {k: arg() for k in kws}]
    elif r < 0.96 or not nd:
        ex = (["num", rng.choice([2, 3, 2, 0.5, 1.5])] if rng.random() < 0.7 else ["var", rng.choice(VARS)])
        e = ["**", gen(rng, depth - 1, pool, nd), ex]
    else:
        c = rng.random()
        if c < 0.25:
            # a subscript with a compound index: 'arr[i + 1]', 'arr[2*i]' (the index is an expression like any other)
            iv = ["var", rng.choice(["a", "b", "x"])]
            e = ["sub", ["var", "arr"], rng.choice([["+", iv, ["num", 1]], ["*", ["num", 2], iv], iv,
                                                    ["+", iv, ["var", rng.choice(["a", "c"])]]])]
        elif c < 0.4:
            e = ["/", gen(rng, depth - 1, pool, nd), ["+", ["*", gen(rng, 0, pool), gen(rng, 0, pool)], ["num", 1]]]
        elif c < 0.7:
            e = ["if", ["cmp", "<", gen(rng, 1, pool), gen(rng, 1, pool)], gen(rng, depth - 1, pool, nd),
                 gen(rng, depth - 1, pool, nd)]
        else:
            e = ["max", gen(rng, depth - 1, pool, nd), gen(rng, depth - 1, pool, nd)]
    if size(e) < 12:
        pool.append(e)
    return e


def close(want, got):
    from vf.sexpr import values_equal
    if isinstance(want, (int, Fraction)) and isinstance(got, (int, Fraction)):
        return abs(want - got) <= abs(want) * Fraction(1, 10 ** 30)
    return values_equal(want, got, rtol=1e-9)


def check(expr, free, rec, deciding=True, after_failed=None):
    """expr: sexpr, free: list of names.  after_failed: another expression that is collapsed first, with the same
    free variables and a new_var_func that gives up at its second request (the caller catches the exception, as
    a generator that runs out of temporaries would): nothing of that call may show up in this one."""
    from pymbolic import var
    from dagrt.expression import collapse_constants
    if after_failed is not None:
        class OutOfNames(Exception):
            pass
        asked = []

        def failing_new_var():
            if asked:
                raise OutOfNames()
            asked.append(1)
            return var("_stale0")
        try:
            collapse_constants(to_pym(after_failed), [var(n) for n in free], lambda v, e: None, failing_new_var)
            rec.count("earlier_calls_that_completed")
        except OutOfNames:
            rec.count("earlier_calls_that_failed_midway")
        except Exception:
            rec.count("earlier_calls_that_raised_otherwise")
    pe = to_pym(expr)
    created = []
    assigned = []

    def new_var():
        v = var(f"_c{len(created)}")
        created.append(v.name)
        return v

    def assign(v, e):
        assigned.append((v, e))

    wit = {"expr": expr, "free": free}
    if after_failed is not None:
        wit["after_failed"] = after_failed
    try:
        with case_alarm(10):
            out = collapse_constants(pe, [var(n) for n in free], assign, new_var)
    except CaseTimeout:
        rec.timeout()
        return
    except Exception as ex:
        if deciding:
            rec.violation(f"exception-{type(ex).__name__}",
                          f"collapse_constants raised {type(ex).__name__}: {ex}", wit)
        else:
            rec.count("nondeciding_exception_" + type(ex).__name__)
        return
    if not deciding:
        rec.count("nondeciding_class_runs")
    rec.count("collapse_calls")
    rec.count("hoisted_assignments", len(assigned))

    def bad(mech, why):
        if deciding:
            rec.violation(mech, why, wit)
        else:
            rec.count("nondeciding_" + mech)

    try:
        so = from_pym(out)
        sas = []
        for v, e in assigned:
            name = getattr(v, "name", None)
            if name is None:
                return bad("assigned-target-not-a-variable", f"assign_func called with target {v!r}")
            sas.append((name, from_pym(e)))
    except ValueError as ex:
        return bad("result-not-an-expression", str(ex))
    names = [n for n, _ in sas]
    for n in created:
        c = names.count(n)
        if c == 0:
            return bad("new-variable-never-assigned", f"{n} was requested but never assigned")
        if c > 1:
            return bad("new-variable-assigned-twice", f"{n} assigned {c} times")
    for n in names:
        if n not in created:
            return bad("assigned-variable-not-requested", f"{n} assigned but never requested via new_var_func")
    used_new = {v for v in variables(so) if v.startswith("_c")}
    for n in used_new:
        if n not in names:
            return bad("result-uses-unassigned-variable", f"result mentions {n} which was never assigned")
    fset = set(free)
    for n, e in sas:
        fs = set()
        vs = variables(e, None, fs)
        hit = (vs | fs) & fset          # (a function symbol may be declared free as well)
        if hit:
            return bad("hoisted-expression-mentions-free-variable",
                       f"{n} <- {e} mentions free variable(s) {sorted(hit)}")
        if any(v.startswith("_c") for v in vs):
            rec.count("hoisted_expression_uses_other_new_variable")
    allv = sorted(variables(expr))
    for pt in range(6):
        prng = random.Random(f"v{pt}:{allv}")
        # (negative values too: (y**2)**0.5 is |y|, not y)
        store = {n: prng.randint(0, 5) if pt % 2 == 0 else prng.randint(-4, 4) for n in allv}
        for salt in (5, 17):
            # exact rational arithmetic (fractional powers: rationals good to 60 digits): re-association of a sum
            # with heavy cancellation ((b + a + c) + tiny + x*c at b + a + c = -x*c) moves a float result by 1e-8
            env = Env({n: Fraction(v) for n, v in store.items()}, UFuncs(salt), numconv=Fraction)
            env.decimal_powers = True
            if "arr" in env.store:
                import numpy as _np
                env.store["arr"] = _np.array([Fraction(3 * k + 1 + pt, 2) for k in range(12)], dtype=object)
            try:
                want = ev(expr, env)
                pending = list(sas)
                # assignments may in principle depend on one another: resolve in any workable order
                progress = True
                while pending and progress:
                    progress = False
                    for item in list(pending):
                        n, e = item
                        if all((v in env.store) for v in variables(e)):
                            env.store[n] = ev(e, env)
                            pending.remove(item)
                            progress = True
                if pending:
                    return bad("hoisted-assignments-cyclic", f"cannot order assignments {pending}")
                got = ev(so, env)
            except Undefined as u:
                # (this valuation has no defined value, e.g. a negative base under a fractional exponent inside a
                # function argument; the other valuations still decide)
                rec.count("points_without_defined_value")
                continue
            rec.count("points_evaluated")
            if not close(want, got):
                return bad("value-changed",
                           f"original = {want}, rewritten = {got} at {store} (salt {salt}); "
                           f"result={so}, assignments={sas}")


def run_shard(shard, rec):
    rng = random.Random(shard["seed"])
    prev = None
    for i in range(shard["count"]):
        nd = (i % 8 == 7)
        expr = gen(rng, rng.choice([1, 2, 3, 3, 4]), [], nd)
        if size(expr) > 60:
            continue
        vs = sorted(variables(expr))
        # (quotients, conditionals, max/min and comparisons were a non-deciding class at first; they never
        # disagreed on the unchanged tree and decide since round 12.  A valuation at which either side has no
        # value -- a constant hoisted out of a branch that is not taken may divide by zero -- is skipped)
        deciding = True
        for r in range(len(vs) + 1):
            for free in itertools.combinations(vs, r):
                check(expr, list(free), rec, deciding,
                      after_failed=prev if (i % 4 == 1 and prev is not None) else None)
                rec.case([expr, list(free)],
                         nontrivial=deciding and bool(vs) and expr[0] not in ("var", "num"))
        fs = set()
        variables(expr, None, fs)
        if fs and i % 3 == 0:
            # a function symbol among the free variables: calls through it are not constant
            fname = sorted(fs)[i % len(fs)]
            for r in range(min(len(vs), 2) + 1):
                for free in itertools.combinations(vs, r):
                    check(expr, list(free) + [fname], rec, deciding)
                    rec.case([expr, list(free) + [fname]], nontrivial=deciding)
                    rec.count("free_sets_with_a_function_symbol")
        prev = expr
        rec.count("expressions")
        rec.count("free_sets_all_subsets" if True else "")


def replay(witness, rec):
    check(witness["expr"], witness["free"], rec, True, after_failed=witness.get("after_failed"))
    rec.case(witness)
