"""C11 — a failing user function leaves the stepper consistent and resumable.

Fault enumeration: for every generated program, EVERY (call site, invocation)
pair that occurs in a fault-free run is faulted once, in both backends.  The
monitor observes: identity of the exception reaching the caller of run(), the
store / attribute set after the fault, each persistent value against the set
R_seq (with dynamic data+control taint) allows, and lock-step equality of
'resume on the same object' vs 'fresh stepper started in that state'."""
import random
from itertools import islice

import numpy as np

from vf import backends, prog
from vf.rseq import RSeq, copyval, is_persistent
from vf.runner import CaseTimeout, case_alarm
from vf.sexpr import Undefined, values_equal

ID = "C11"
LEVEL = "fault_enumeration"
RULE = ("G_prog 'py' programs with tagged user-function call sites (inline calls, call statements, calls in "
        "guards, loop bodies, yields); for each program every (site, invocation) pair of a fault-free run of k "
        "steps (0-3 before, the faulted one, 1-3 after) is faulted once with a distinct exception object, in the "
        "interpreter and in generated Python; plus hand-built chains with calls in statement guards, half of them "
        "ordered through Nop statements, with repeated call-less guards. distinct = (script, site, invocation, backend); non-trivial = the "
        "faulted step writes at least one persistent variable or yields")
ASSUMPTIONS = [
    "user functions are pure apart from the injected fault; the exception types injected are ordinary ones "
    "(a custom Exception, KeyError, AttributeError, TypeError, ZeroDivisionError and a BaseException subclass), "
    "not dagrt's own control-flow exceptions",
    "allowed post-fault values of a persistent variable: its pre-step value, or any value the program assigns to "
    "it in that step whose taint (data and control dependence on calls, tracked by R_seq) does not contain the "
    "failed call",
]
ANCHORS = ["dagrt.exec_numpy:NumpyInterpreter.run_single_step", "dagrt.exec_numpy:NumpyInterpreter.run",
           "dagrt.language:ExecutionController.__call__"]
MIN_NONTRIVIAL = {"quick": 2500, "thorough": 224000}
REQUIRED_COUNTERS = {"quick": ["faults_injected_interpreter", "faults_injected_generated", "exception_identity_checked",
                               "post_fault_values_checked", "resume_steps_compared",
                               "faults_injected_in_statement_guard"],
                     "thorough": ["faults_injected_interpreter", "faults_injected_generated",
                                  "exception_identity_checked", "post_fault_values_checked", "resume_steps_compared",
                                  "faults_injected_in_statement_guard"]}
SHARD_TIMEOUT = {"quick": 900, "thorough": 3400}


def plan(tier, seed):
    per = 30 if tier == "quick" else 3200
    return [{"seed": f"C11:{seed}:{k}", "count": per} for k in range(16)]


class Hard(BaseException):
    pass


class Boom(Exception):
    pass


def make_exc(i):
    return [Boom("injected"), KeyError("injected"), AttributeError("injected"), TypeError("injected"),
            ZeroDivisionError("injected"), Hard("injected")][i % 6]


class FaultyFuncs:
    """Function map whose functions count invocations per tagged site and raise
    the given exception object at (site, invocation)."""

    def __init__(self, script, fault=None, exc=None):
        self.counts = {}
        self.fault = fault
        self.exc = exc
        self.fired = False
        self.map = prog.python_functions(script, wrap=self._hook)

    def _hook(self, name, tag):
        key = f"{name}#{int(tag) if tag is not None else None}"
        n = self.counts.get(key, 0)
        self.counts[key] = n + 1
        if self.fault is not None and not self.fired and self.fault == (key, n):
            self.fired = True
            raise self.exc


def gen_script(rng):
    g = prog.Gen(rng, profile="py", tag_calls=True, max_ops=rng.choice([6, 9, 12]),
                 call_bias=rng.choice([0.1, 0.2, 0.3]), stencil_bias=0.55)
    # bias towards calls (and towards neighbouring loops over one range)
    sc = g.script()
    sc["run"] = {"max_steps": rng.randint(2, 5)}
    sc["event_cap"] = 40
    return sc


class Stepper:
    """Uniform handle on either backend."""

    def __init__(self, kind, dag, script, funcs, cls_cache):
        self.kind = kind
        self.script = script
        if kind == "interpreter":
            from dagrt.exec_numpy import NumpyInterpreter
            self.obj = NumpyInterpreter(dag, funcs)
            self.obj.set_up(script["t0"], script["dt0"], backends.initial_context(script))
        else:
            cls, gmap = cls_cache
            self.gmap = gmap
            self.obj = cls(funcs)
            self.obj.set_up(script["t0"], script["dt0"], backends.initial_context(script))

    def persistent(self):
        if self.kind == "interpreter":
            return {k: copyval(v) for k, v in self.obj.context.items() if is_persistent(k)}
        out = {}
        for ir, py in self.gmap.items():
            if hasattr(self.obj, py[5:]):
                out[ir] = copyval(getattr(self.obj, py[5:]))
        return out

    def stray(self, baseline_attrs):
        if self.kind == "interpreter":
            return sorted(k for k in self.obj.context if not is_persistent(k))
        return sorted(set(vars(self.obj)) - baseline_attrs - {py[5:] for py in self.gmap.values()})

    def attrs(self):
        return set(vars(self.obj)) if self.kind != "interpreter" else set()

    def load(self, persistent, next_phase):
        if self.kind == "interpreter":
            ctx = self.obj.context
            for k in list(ctx):
                del ctx[k]
            for k, v in persistent.items():
                ctx[k] = copyval(v)
        else:
            for ir, py in self.gmap.items():
                if ir in persistent:
                    setattr(self.obj, py[5:], copyval(persistent[ir]))
                elif hasattr(self.obj, py[5:]):
                    delattr(self.obj, py[5:])
        self.obj.next_phase = next_phase

    def run(self, max_steps):
        return self.obj.run(max_steps=max_steps)


def drive(stepper, max_steps, cap=80):
    """Consume events; returns (events, boundary snapshots, exception or None)."""
    events, bounds = [], [(stepper.persistent(), stepper.obj.next_phase)]
    exc = None
    try:
        for ev in islice(stepper.run(max_steps), cap):
            e = backends.encode_event(ev)
            events.append(e)
            if e[0] in ("completed", "failed"):
                bounds.append((stepper.persistent(), stepper.obj.next_phase))
    except BaseException as ex:      # noqa: BLE001 -- the escaping exception is what we observe
        if isinstance(ex, (KeyboardInterrupt, SystemExit, CaseTimeout)):
            raise
        exc = ex
    return events, bounds, exc


def allowed_values(rs, step, var, failed):
    """[(value, definedness mask or None)] the program assigns without depending on the failed call."""
    vals = []
    for v, taint, mask in rs.step_writes[step].get(var, []):
        if failed not in taint:
            vals.append((v, mask))
    return vals


def matches(got, cand):
    v, mask = cand
    if mask is None or not isinstance(got, np.ndarray) or got.shape != v.shape:
        return values_equal(got, v, rtol=1e-12)
    # elements the program has not defined yet (fresh <builtin>array storage) hold garbage
    return values_equal(got[mask], v[mask], rtol=1e-12)


def check_program(script, rec):
    wit0 = {"script": script}
    try:
        rs = RSeq(script)
        rs.run(max_steps=script["run"]["max_steps"], event_cap=script["event_cap"])
    except Undefined as u:
        rec.undef(str(u))
        return
    if rs.alias_sensitive:
        rec.undef("alias-sensitive-element-write")
        return
    if any(e[0] == "raised" for e in rs.events):
        pass
    sites = [(k, n, s) for (k, n, s) in rs.call_log if not k.endswith("#None")]
    if not sites:
        rec.count("programs_without_call_sites")
        return
    dag = prog.build(script)
    from dagrt.codegen import PythonCodeGenerator
    cg = PythonCodeGenerator(class_name="M")
    cls = cg.get_class(dag)
    cache = (cls, dict(cg._name_manager._global_map._dict))
    rec.count("programs")
    rec.cmax("max_faults_per_program", len(sites))
    for fi, (key, n, step) in enumerate(sites):
        for kind in ("interpreter", "generated"):
            wit = dict(wit0, fault=[key, n], backend=kind)
            exc = make_exc(fi)
            ff = FaultyFuncs(script, (key, n), exc)
            st = Stepper(kind, dag, script, ff.map, cache)
            base_attrs = st.attrs()
            with case_alarm(20):
                events, bounds, got = drive(st, script["run"]["max_steps"], script["event_cap"])
            rec.count("faults_injected_" + kind)
            faulted_step_writes = rs.step_writes[step] if step < len(rs.step_writes) else {}
            nt = bool(faulted_step_writes) or any(True for e in rs.events if e[0] == "yield")
            rec.case([rec_key(script), key, n, kind], nontrivial=nt,
                     sample={"fault": [key, n], "backend": kind, "step": step, "script": script})
            if not ff.fired:
                if len(events) >= script["event_cap"]:
                    rec.count("fault_not_reached_within_event_cap")
                    continue
                rec.violation("faulted-call-never-made",
                              f"{kind}: call {key} invocation {n} happens in program order (step {step}) but the "
                              f"backend never made it", wit)
                continue
            rec.count("exception_identity_checked")
            if got is not exc:
                rec.violation(f"exception-not-propagated-unchanged-{type(exc).__name__}",
                              f"{kind}: user function raised {exc!r}; the caller of run() got {got!r}", wit)
                continue
            stray = st.stray(base_attrs)
            if stray:
                rec.violation(f"temporary-visible-after-fault-{kind}",
                              f"{kind}: after the fault these non-persistent names are visible: {stray}", wit)
                continue
            post = st.persistent()
            pre = bounds[-1][0]
            failed = (key, n)
            bad = False
            for var in sorted(set(post) | set(pre)):
                rec.count("post_fault_values_checked")
                cands = ([(pre[var], None)] if var in pre else []) + allowed_values(rs, step, var, failed)
                if var not in post:
                    if var in pre:
                        rec.violation(f"persistent-variable-vanished-after-fault-{kind}", f"{var}", wit)
                        bad = True
                        break
                    continue
                if not any(matches(post[var], c) for c in cands):
                    allw = rs.step_writes[step].get(var, [])
                    only_tainted = bool(allw) and all(failed in t for _, t, _m in allw)
                    mech = ("variable-depending-only-on-failed-call-changed" if only_tainted
                            else "post-fault-value-not-assigned-by-program")
                    rec.violation(f"{mech}-{kind}",
                                  f"{kind}: after {key}#{n} failed in step {step}, {var} = {post[var]!r}; allowed: "
                                  f"pre-step {pre.get(var)!r} or untainted assignments "
                                  f"{[c[0] for c in cands[1:]]!r}", wit)
                    bad = True
                    break
            if bad:
                continue
            # ---- resume vs fresh
            nxt = st.obj.next_phase
            nmore = 2
            clean1 = FaultyFuncs(script)
            clean2 = FaultyFuncs(script)
            # swap the function maps to fault-free ones
            fresh = Stepper(kind, dag, script, clean2.map, cache)
            fresh.load(post, nxt)
            if kind == "interpreter":
                st.obj.functions.update(clean1.map)
                st.obj.eval_mapper.functions = st.obj.functions
            else:
                for fid in script.get("funcs", {}):
                    nm = cg._name_manager.function_map._dict.get(fid)
                    if nm:
                        setattr(st.obj._functions, nm.split(".")[-1], clean1.map[fid])
            with case_alarm(20):
                e1, b1, x1 = drive(st, nmore, 40)
                e2, b2, x2 = drive(fresh, nmore, 40)
            rec.count("resume_steps_compared", len(b1) - 1)
            r1, r2 = backends.Result(), backends.Result()
            r1.events, r2.events = e1, e2
            r1.persist_after, r2.persist_after = b1[1:], b2[1:]
            d = backends.first_difference(r1, r2, "resumed", "fresh", rtol=1e-12)
            if d is None and (x1 is None) != (x2 is None):
                d = ("exception", f"resumed raised {x1!r}, fresh raised {x2!r}")
            if d is not None:
                rec.violation(f"resumed-stepper-differs-from-fresh-{kind}:{d[0]}",
                              f"{kind}: after {key}#{n} failed, continuing on the same object differs from a "
                              f"fresh stepper in the same state: {d[1]}", wit)


# {{{ calls inside the guard of a statement (hand-built statements: CodeBuilder.if_ never produces these)

GC_VARS = ["<state>a", "<state>b", "<state>c"]


def gc_funcs(hook):
    def c(x, tag=None):
        hook("<func>c", tag)
        return 0.75 * x - 0.125 * tag

    def f(x, tag=None):
        hook("<func>f", tag)
        return 0.5 * x + tag
    return {"<func>c": c, "<func>f": f}


def gen_guard_calls(rng):
    site = [0]

    def call(fn):
        site[0] += 1
        return ["call", fn, [["var", rng.choice(GC_VARS)]], {"tag": ["num", site[0]]}]

    def plain():
        return ["+", ["*", ["num", rng.choice([0.5, -0.5, 0.25])], ["var", rng.choice(GC_VARS)]],
                ["num", rng.choice([1, 0.5, -1])]]
    stmts = [{"target": "tmpv", "rhs": plain(), "cond": None}]
    for k in range(rng.randint(2, 6)):
        r = rng.random()
        if r < 0.2:
            cond = None
        elif r < 0.4:
            # a guard without a call, from a small pool: several statements of a chain carry the SAME guard.  It reads
            # a variable that no statement of the chain writes: neighbours with equal guards are merged under one
            # 'if', which presumes that a guard keeps its value (the builder's flags are assigned once)
            cond = ["cmp", "<", ["var", "<state>ro"], ["num", rng.choice([100, 100, 0.5])]]
        elif r < 0.6:
            cond = ["cmp", rng.choice([">", "<"]), call("<func>c"), ["num", rng.choice([0, 0.5, -0.5])]]
        elif r < 0.8:
            cond = ["and", ["cmp", "<", ["var", rng.choice(GC_VARS)], ["num", rng.choice([1, 4, 100])]],
                    ["cmp", ">", call("<func>c"), ["num", rng.choice([0, -1])]]]
        else:
            cond = ["not", ["cmp", ">", call("<func>c"), ["num", rng.choice([0, 1])]]]
        rr = rng.random()
        rhs = plain() if rr < 0.5 else (["+", plain(), call("<func>f")] if rr < 0.8 else ["+", plain(), ["var", "tmpv"]])
        stmts.append({"target": rng.choice(GC_VARS), "rhs": rhs, "cond": cond})
    return {"guard_calls": True, "stmts": stmts, "t0": 0.0, "dt0": 0.5,
            # (the chain's order is expressed through Nop statements: s1 <- n0 <- s0 instead of s1 <- s0)
            "nop_links": rng.random() < 0.5,
            "state": {"a": rng.choice([1.0, 2.0, -1.0]), "b": rng.choice([0.5, 3.0]), "c": rng.choice([-2.0, 1.5]),
                      "ro": 1.0},
            "run": {"max_steps": rng.randint(2, 3)}, "event_cap": 40}


def gc_reference(case, fault=None):
    """Program order on a plain dict; returns (sites [(key, n, step)], per-step pre/at-fault states)."""
    from vf.sexpr import Env, ev
    counts, sites = {}, []
    store = {"<state>" + k: float(v) for k, v in case["state"].items()}

    class Stop(Exception):
        pass

    cur = [0]

    def hook(name, tag):
        key = f"{name}#{int(tag)}"
        n = counts.get(key, 0)
        counts[key] = n + 1
        sites.append((key, n, cur[0]))
        if fault == (key, n):
            raise Stop()
    funcs = gc_funcs(hook)
    for step in range(case["run"]["max_steps"]):
        cur[0] = step
        pre = dict(store)
        work = dict(store)
        try:
            for st in case["stmts"]:
                env = Env(work, funcs)
                if st["cond"] is None or ev(st["cond"], env):
                    work[st["target"]] = ev(st["rhs"], env)
        except Stop:
            return sites, pre, {k: v for k, v in work.items() if k in pre}
        store = {k: v for k, v in work.items() if k in pre}
    return sites, None, None


def check_guard_calls(case, rec):
    from dagrt.codegen import PythonCodeGenerator
    from dagrt.language import Assign, DAGCode, ExecutionPhase, Nop
    from vf.sexpr import to_pym
    stmts = []
    if case.get("nop_links"):
        rec.count("guard_call_programs_ordered_through_nop_statements")
    for k, st in enumerate(case["stmts"]):
        deps = [f"s{k - 1}"] if k else []
        if k and case.get("nop_links"):
            stmts.append(Nop(id=f"n{k - 1}", depends_on=frozenset(deps), condition=True))
            deps = [f"n{k - 1}"]
        stmts.append(Assign(st["target"], (), to_pym(st["rhs"]), id=f"s{k}",
                            depends_on=frozenset(deps),
                            condition=True if st["cond"] is None else to_pym(st["cond"])))
    dag = DAGCode({"main": ExecutionPhase("main", "main", frozenset(stmts))}, "main")
    cg = PythonCodeGenerator(class_name="M")
    cls = cg.get_class(dag)
    cache = (cls, dict(cg._name_manager._global_map._dict))
    try:
        sites, _, _ = gc_reference(case)
    except Undefined as u:
        rec.undef(str(u))
        return
    rec.count("guard_call_programs")
    for fi, (key, n, step) in enumerate(sites):
        in_guard = key.startswith("<func>c")
        _, pre, at_fault = gc_reference(case, (key, n))
        for kind in ("interpreter", "generated"):
            wit = dict(case, fault=[key, n], backend=kind)
            exc = make_exc(fi + step)
            fired = [False]
            counts = {}

            def hook(name, tag, counts=counts, fired=fired, exc=exc):
                kk = f"{name}#{int(tag)}"
                m = counts.get(kk, 0)
                counts[kk] = m + 1
                if not fired[0] and (kk, m) == (key, n):
                    fired[0] = True
                    raise exc
            st = Stepper(kind, dag, case, gc_funcs(hook), cache)
            base_attrs = st.attrs()
            with case_alarm(20):
                events, bounds, got = drive(st, case["run"]["max_steps"], case["event_cap"])
            rec.count("faults_injected_" + kind)
            if in_guard:
                rec.count("faults_injected_in_statement_guard")
            rec.case(["guard-call", rec_key(case), key, n, kind], nontrivial=True)
            if not fired[0]:
                rec.violation("faulted-call-never-made",
                              f"{kind}: call {key} invocation {n} happens in program order (step {step}) but the "
                              f"backend never made it", wit)
                continue
            rec.count("exception_identity_checked")
            if got is not exc:
                where = "in-statement-guard-" if in_guard else ""
                rec.violation(f"exception-{where}not-propagated-unchanged-{type(exc).__name__}",
                              f"{kind}: user function raised {exc!r}; the caller of run() got {got!r}", wit)
                continue
            stray = st.stray(base_attrs)
            if stray:
                rec.violation(f"temporary-visible-after-fault-{kind}",
                              f"{kind}: after the fault these non-persistent names are visible: {stray}", wit)
                continue
            post = st.persistent()
            bad = False
            for var in sorted(set(pre) & set(bounds[0][0])):
                # (a variable the program never mentions does not exist in the generated class)
                rec.count("post_fault_values_checked")
                if var not in post or not (values_equal(post[var], pre[var], rtol=1e-12)
                                           or values_equal(post[var], at_fault[var], rtol=1e-12)):
                    rec.violation(f"post-fault-value-not-assigned-by-program-{kind}",
                                  f"{kind}: after {key}#{n} failed in step {step}, {var} = {post.get(var)!r}; allowed: "
                                  f"pre-step {pre[var]!r} or {at_fault[var]!r}", wit)
                    bad = True
                    break
            if bad:
                continue
            nxt = st.obj.next_phase
            noop = lambda name, tag: None      # noqa: E731
            fresh = Stepper(kind, dag, case, gc_funcs(noop), cache)
            fresh.load(post, nxt)
            with case_alarm(20):
                e1, b1, x1 = drive(st, 2, 40)
                e2, b2, x2 = drive(fresh, 2, 40)
            rec.count("resume_steps_compared", len(b1) - 1)
            r1, r2 = backends.Result(), backends.Result()
            r1.events, r2.events = e1, e2
            r1.persist_after, r2.persist_after = b1[1:], b2[1:]
            d = backends.first_difference(r1, r2, "resumed", "fresh", rtol=1e-12)
            if d is None and (x1 is None) != (x2 is None):
                d = ("exception", f"resumed raised {x1!r}, fresh raised {x2!r}")
            if d is not None:
                rec.violation(f"resumed-stepper-differs-from-fresh-{kind}:{d[0]}",
                              f"{kind}: after {key}#{n} failed, continuing on the same object differs from a "
                              f"fresh stepper in the same state: {d[1]}", wit)

# }}}


def rec_key(script):
    from vf.runner import jhash
    return jhash(script)


def run_shard(shard, rec):
    rng = random.Random(shard["seed"])
    for i in range(shard["count"]):
        try:
            if i % 5 == 4:
                for _ in range(3):
                    with case_alarm(120):
                        check_guard_calls(gen_guard_calls(rng), rec)
                continue
            script = gen_script(rng)
            with case_alarm(120):
                check_program(script, rec)
        except CaseTimeout:
            rec.timeout()


def replay(witness, rec):
    if witness.get("guard_calls"):
        check_guard_calls({k: v for k, v in witness.items() if k not in ("fault", "backend")}, rec)
        return
    check_program(witness["script"], rec)


def coverage_extra(tier, counters):
    return {"enumeration": "every (call site, invocation) pair of every generated program, both backends; "
            f"largest program had {counters.get('max_faults_per_program')} fault points"}
