"""C07 — statement-rewriting passes preserve meaning and never capture names.

Monitor: before/after differential over R_tree (vf.rtree): each pass of
dagrt.codegen.transform alone and the Fortran generator's order, on trees from
the real create_ast_from_phase (G_prog programs) and on hand-built trees; final
values of original variables, the ordered externally visible statements and the
multiset of external calls are compared under several valuations; introduced
names/ids are checked for freshness and set-before-read."""
import random

import numpy as np

from vf import prog
from vf.runner import CaseTimeout, case_alarm
from vf.sexpr import Undefined, has, to_pym, values_equal, variables

ID = "C07"
LEVEL = "exploration"
RULE = ("structured phases: (a) trees lowered by the real create_ast_from_phase from G_prog programs; (b) "
        "hand-built trees (blocks, if/else on flags, for loops) over statements with nested calls, keyword "
        "arguments, calls inside conditional-expression branches, nested conditional expressions in then/else/"
        "condition position, self-dependent statements with and without loops/guards, statement-level guards, "
        "and user names/ids equal to what the passes generate (tmp, tmp_0, temp, temp_y, ifthenelse_result, "
        "<cond>ifthenelse_cond, ...) incl. names occurring only in a loop bound, assignee subscript, loop "
        "counter or tree condition, names with upper-case letters, user functions registered under the name of a "
        "variable; each pass alone and the generator's order, x 6 valuations x uninterpreted "
        "function tables. distinct = canonical JSON of (tree, pass); non-trivial = the pass changed the tree")
ASSUMPTIONS = [
    "value semantics for arrays (the passes prepare code for Fortran); user functions are pure and "
    "uninterpreted (hash-based), so equal values mean equal under (almost) all interpretations",
    "valuations under which the ORIGINAL tree is undefined (unset variable, bad subscript) are skipped",
]
ANCHORS = ["dagrt.codegen.transform:eliminate_self_dependencies", "dagrt.codegen.transform:isolate_function_arguments",
           "dagrt.codegen.transform:isolate_function_calls", "dagrt.codegen.transform:expand_IfThenElse",
           "dagrt.codegen.transform:ExprIfThenElseExpander.map_if",
           "dagrt.codegen.transform:SelfDependencyEliminator.map_statement"]
MIN_NONTRIVIAL = {"quick": 1200, "thorough": 31499}
REQUIRED_COUNTERS = {"quick": ["passes_applied", "valuations_compared", "introduced_names_checked",
                               "trees_from_real_lowering", "handbuilt_trees"],
                     "thorough": ["passes_applied", "valuations_compared", "introduced_names_checked",
                                  "trees_from_real_lowering", "handbuilt_trees"]}
SHARD_TIMEOUT = {"quick": 900, "thorough": 3400}

PASSES = ["selfdep", "args", "calls", "ifexpr", "pipeline"]


def plan(tier, seed):
    per = 60 if tier == "quick" else 2100
    sh = [{"kind": "prog", "seed": f"C07:{seed}:{k}", "count": per} for k in range(8)]
    per2 = 150 if tier == "quick" else 4800
    sh += [{"kind": "hand", "seed": f"C07:{seed}:h{k}", "count": per2} for k in range(8)]
    return sh


def apply_pass(name, tree):
    import dagrt.codegen.transform as T
    if name == "selfdep":
        return T.eliminate_self_dependencies(tree)
    if name == "args":
        return T.isolate_function_arguments(tree)
    if name == "calls":
        return T.isolate_function_calls(tree)
    if name == "ifexpr":
        return T.expand_IfThenElse(tree)
    t = tree
    for fn in generator_pass_order():
        t = getattr(T, fn)(t)
    return t


_ORDER = None


def generator_pass_order():
    """The order in which the Fortran generator applies the passes, read off
    its source so that the check follows the repository."""
    global _ORDER
    if _ORDER is None:
        import inspect
        import re
        import dagrt.codegen.fortran as F
        src = inspect.getsource(F.CodeGenerator.__call__)
        found = re.findall(r"ast = (eliminate_self_dependencies|isolate_function_arguments|"
                           r"isolate_function_calls|expand_IfThenElse)\(ast\)", src)
        _ORDER = found if len(found) == 4 else ["eliminate_self_dependencies", "isolate_function_arguments",
                                                "isolate_function_calls", "expand_IfThenElse"]
    return _ORDER


# {{{ hand-built trees

GEN_LIKE = ["tmp", "tmp_0", "tmp_1", "temp", "temp_0", "temp_y", "temp_y_0", "temp__state_y", "ifthenelse_result",
            "ifthenelse_result_0", "<cond>ifthenelse_cond", "<cond>ifthenelse_cond_0"]
PLAIN = ["x", "y", "z", "<state>y", "<p>k"]
ARRS = ["arr", "<state>v"]
FLAGS = ["<cond>a", "<cond>b"]
IDS_LIKE = ["tmp", "tmp_0", "temp", "temp_0", "ifthenelse_cond", "ifthenelse_then", "ifthenelse_else",
            "ifthenelse_cond_0"]
FUNCS = ["<func>f", "<func>g", "<builtin>norm_2"]
_CALLED = [FUNCS[:2]]       # the functions the tree being written calls (set per tree by h_tree)


def h_expr(rng, d, names, allow_if=True, allow_call=True):
    r = rng.random()
    if d >= 2 and allow_if and rng.random() < 0.06:
        # the SAME sub-expression (a conditional, a call) several times in one statement, once inside a branch
        # of another conditional and once outside it: 'A if d else A + 1', '10*(A if d else 0) + A'
        A = h_expr(rng, d - 1, names, True, allow_call)
        if A[0] not in ("if", "call"):
            A = ["if", ["cmp", "<", ["var", rng.choice(names)], ["num", 2]], A, ["var", rng.choice(names)]]
        dcond = rng.choice([["var", rng.choice(FLAGS)], ["cmp", ">", ["var", rng.choice(names)], ["num", 1]]])
        return rng.choice([["if", dcond, A, ["+", A, ["num", 1]]],
                           ["+", ["*", ["num", 10], ["if", dcond, A, ["num", 0]]], A],
                           ["+", A, ["if", dcond, ["num", 3], A]],
                           ["*", A, A]])
    if d <= 0 or r < 0.25:
        if rng.random() < 0.25:
            return ["num", rng.choice([2, 3, 5, -1])]
        return ["var", rng.choice(names)]
    if r < 0.45:
        return [rng.choice(["+", "*"]), h_expr(rng, d - 1, names, allow_if, allow_call),
                h_expr(rng, d - 1, names, allow_if, allow_call)]
    if r < 0.7 and allow_call:
        kws = rng.sample(["k", "m"], rng.choice([0, 0, 1, 2]))
        return ["call", rng.choice(_CALLED[0]), [h_expr(rng, d - 1, names, allow_if) for _ in range(rng.choice([1, 2]))],
                {k: h_expr(rng, d - 1, names, allow_if) for k in kws}]
    if r < 0.9 and allow_if:
        c = ["cmp", rng.choice(["<", ">", "=="]), h_expr(rng, d - 1, names, allow_if, allow_call),
             h_expr(rng, d - 1, names, False, allow_call)]
        if rng.random() < 0.2:
            c = ["var", rng.choice(FLAGS)]
        return ["if", c, h_expr(rng, d - 1, names, allow_if, allow_call),
                h_expr(rng, d - 1, names, allow_if, allow_call)]
    if r < 0.95:
        return ["sub", ["var", rng.choice(ARRS)], ["num", rng.randrange(3)]]
    return ["-", h_expr(rng, d - 1, names, allow_if, allow_call), ["num", 2]]


def h_stmt(rng, sid, names):
    g = rng.random()
    cond = True
    if g < 0.2:
        cond = ["var", rng.choice(FLAGS)]
    elif g < 0.27:
        cond = ["and", ["var", FLAGS[0]], ["not", ["var", FLAGS[1]]]]
    elif g < 0.36:
        # a disjunction as the statement's own guard (holds although not all of its operands do)
        cond = rng.choice([["or", ["var", FLAGS[0]], ["var", FLAGS[1]]],
                           ["or", ["not", ["var", FLAGS[0]]], ["var", FLAGS[1]]],
                           ["or", ["and", ["var", FLAGS[0]], ["var", FLAGS[1]]], ["not", ["var", FLAGS[1]]]]])
    k = rng.random()
    if k < 0.5:
        lhs = rng.choice(names)
        rhs = h_expr(rng, rng.choice([1, 2, 3]), names)
        if rng.random() < 0.35:
            # self-dependent
            rhs = ["+", ["var", lhs], rhs]
        return {"k": "assign", "lhs": lhs, "sub": None, "rhs": rhs, "loops": [], "cond": cond, "id": sid}
    if k < 0.65:
        a = rng.choice(ARRS)
        c = rng.choice(["i", "j", "tmp", "temp"])
        hi = rng.choice([["num", 3], ["var", "nb"], ["var", rng.choice(["tmp_1", "temp_0"])]])
        rhs = h_expr(rng, 2, names + [c])
        q = rng.random()
        if q < 0.35:
            rhs = ["+", ["sub", ["var", a], ["var", c]], rhs]
        elif q < 0.6:
            # a recurrence: later trips read the element that the first trip has just assigned
            rhs = ["+", ["sub", ["var", a], ["var", c]], ["*", ["num", 2], ["sub", ["var", a], ["num", 0]]], rhs]
        # (loops are tree nodes, as in what lowering hands to the passes; a statement-level
        # guard would sit outside the loop, so this one is unguarded)
        return {"k": "assign", "lhs": a, "sub": ["var", c], "rhs": rhs, "loops": [], "cond": True, "id": sid,
                "for": [c, ["num", 0], hi]}
    if k < 0.75:
        a = rng.choice(ARRS)
        sub = rng.choice([["num", 1], ["var", "only_sub"], ["var", "tmp_0"],
                          # a call (or a conditional with a call in a branch) in the assignee's subscript
                          ["call", "<func>slot", [rng.choice([["var", "nb"], ["num", 2]])], {}],
                          ["if", ["cmp", ">", ["var", "nb"], ["num", 1]],
                           ["call", "<func>slot", [["var", "nb"]], {}], ["num", 0]]])
        return {"k": "assign", "lhs": a, "sub": sub, "rhs": h_expr(rng, 2, names), "loops": [], "cond": cond,
                "id": sid}
    if k < 0.9:
        kws = rng.sample(["k", "m"], rng.choice([0, 1]))
        lhs = rng.choice(names)
        args = [h_expr(rng, 2, names) for _ in range(rng.choice([1, 2]))]
        if rng.random() < 0.3:
            args[0] = ["var", lhs]        # self-dependent call statement
        return {"k": "call", "lhs": [lhs], "f": rng.choice(_CALLED[0]), "args": args,
                "kw": {k_: h_expr(rng, 1, names) for k_ in kws}, "cond": cond, "id": sid}
    return {"k": "yield", "expr": h_expr(rng, 2, names), "time": ["var", "<t>"], "cond": cond, "id": sid}


def h_tree(rng):
    names = PLAIN + rng.sample(GEN_LIKE, rng.randint(1, 5))
    if rng.random() < 0.2:
        # names with upper-case letters, and the temporaries' names spelt the same way (names are case sensitive)
        names = ["x", "Y", "yNew", "<state>y", "<p>K"] + rng.sample(["temp_Y", "temp_yNew", "temp_y", "Tmp", "tmp", "TMP_0",
                                                                      "temp__p_K", "ifthenelse_Result"], rng.randint(2, 5))
    _CALLED[0] = FUNCS[:2]
    if rng.random() < 0.15:
        # a user function registered under the plain name of one of the tree's variables ('y <- y(y) + 1'):
        # functions and variables live in separate namespaces
        _CALLED[0] = ["<func>f", rng.choice(names[:3])]
    n = rng.randint(1, 7)
    ids = []
    pool = [f"s{i}" for i in range(10)] + IDS_LIKE
    stmts = []
    # flags are assigned by statements of the phase (as the builder does), never free inputs
    for fl in FLAGS + ["<cond>ifthenelse_cond"]:
        sid = f"set_{len(ids)}"
        ids.append(sid)
        stmts.append(["S", {"k": "assign", "lhs": fl, "sub": None,
                            "rhs": ["cmp", rng.choice(["<", ">"]), ["var", rng.choice(PLAIN)], ["num", rng.choice([0, 2])]],
                            "loops": [], "cond": True, "id": sid}])
    # loop bounds held in variables are assigned by statements of the phase as well
    for bv in ("nb", "tmp_1", "temp_0", "only_sub", "tmp_0"):
        sid = f"set_{len(ids)}"
        ids.append(sid)
        stmts.append(["S", {"k": "assign", "lhs": bv, "sub": None, "rhs": ["num", rng.randint(0, 3)],
                            "loops": [], "cond": True, "id": sid}])
    nfix = len(stmts)
    for i in range(n):
        sid = rng.choice([x for x in pool if x not in ids])
        ids.append(sid)
        st = h_stmt(rng, sid, names)
        node = ["S", st]
        if "for" in st:
            c, lo, hi = st.pop("for")
            # (lowering puts the statement itself under the loop node; a one-statement block is the rarer shape)
            node = ["F", c, lo, hi, node if rng.random() < 0.7 else ["B", node]]
        stmts.append(node)

    def wrap(nodes, depth):
        out = []
        i = 0
        while i < len(nodes):
            r = rng.random()
            if r < 0.2 and depth < 2 and i + 1 < len(nodes):
                c = rng.choice([["var", rng.choice(FLAGS)], ["not", ["var", rng.choice(FLAGS)]],
                                ["var", "<cond>ifthenelse_cond"]])
                k = rng.randint(1, 2)
                if rng.random() < 0.5:
                    out.append(["I", c, ["B"] + wrap(nodes[i:i + k], depth + 1)])
                else:
                    out.append(["E", c, ["B"] + wrap(nodes[i:i + k], depth + 1),
                                ["B"] + wrap(nodes[i + k:i + k + 1], depth + 1)])
                    k += 1
                i += k
            elif r < 0.3 and depth < 2:
                cv = rng.choice(["ii", "tmp", "temp", "ifthenelse_result"])
                out.append(["F", cv, ["num", 0], rng.choice([["num", 2], ["var", "nb"]]), ["B", nodes[i]]])
                i += 1
            else:
                out.append(nodes[i])
                i += 1
        return out
    return ["B"] + stmts[:nfix] + wrap(stmts[nfix:], 0)


def pg(c):
    if c is True:
        return True
    return to_pym(c)


def build_tree(t):
    from dagrt.codegen import dag_ast as A
    from dagrt.language import Assign, AssignFunctionCall, YieldState
    k = t[0]
    if k == "B":
        return A.Block(*[build_tree(x) for x in t[1:]])
    if k == "I":
        return A.IfThen(pg(t[1]), build_tree(t[2]))
    if k == "E":
        return A.IfThenElse(pg(t[1]), build_tree(t[2]), build_tree(t[3]))
    if k == "F":
        return A.ForLoop(t[1], pg(t[2]), pg(t[3]), build_tree(t[4]))
    s = t[1]
    kw = dict(id=s["id"], condition=pg(s["cond"]), depends_on=frozenset())
    if s["k"] == "assign":
        return A.StatementWrapper(Assign(s["lhs"], (to_pym(s["sub"]),) if s["sub"] is not None else (),
                                         to_pym(s["rhs"]),
                                         loops=[(c, to_pym(lo), to_pym(hi)) for c, lo, hi in s["loops"]], **kw))
    if s["k"] == "call":
        return A.StatementWrapper(AssignFunctionCall(tuple(s["lhs"]), s["f"], tuple(to_pym(a) for a in s["args"]),
                                                     {n: to_pym(v) for n, v in s["kw"].items()}, **kw))
    return A.StatementWrapper(YieldState(expression=to_pym(s["expr"]), component_id="y",
                                         time=to_pym(s["time"]), time_id="fin", **kw))


def hand_valuation(rng, names):
    st = {}
    for n in names:
        if n.startswith("<cond>"):
            st[n] = rng.random() < 0.5
        elif n in ARRS:
            st[n] = np.array([float(rng.randint(-3, 6)) for _ in range(4)])
        elif n in ("nb", "only_sub", "tmp_1", "temp_0", "tmp_0"):
            st[n] = rng.randint(0, 3)
        else:
            st[n] = rng.randint(-4, 7)
    st["<t>"] = 1
    return st

# }}}


def features(tree):
    """Structural features for the mechanism key."""
    from vf.rtree import statements
    from vf.sexpr import from_pym
    f = set()
    for s in statements(tree):
        exprs = []
        if hasattr(s, "rhs"):
            exprs.append(s.rhs)
            # (the subscript of a subscripted assignee is an expression like any other)
            exprs += list(getattr(s, "assignee_subscript", ()) or ())
        exprs += list(getattr(s, "parameters", ())) + list(getattr(s, "kw_parameters", {}).values())
        if hasattr(s, "expression") and not hasattr(s, "rhs"):
            exprs.append(s.expression)
        for e in exprs:
            try:
                x = from_pym(e)
            except ValueError:
                continue
            if call_in_if_branch(x):
                f.add("call-in-lazily-evaluated-position")
                f.add("call-in-conditional-expression-branch")
            if call_in_if_branch(x, shortcircuit=True):
                f.add("call-in-lazily-evaluated-position")
                f.add("call-in-short-circuit-operand")
            lf = lazy_funcs(x)
            f.update("br:" + n for n in lf["br"])
            f.update("sc:" + n for n in lf["sc"])
            if nested_if(x):
                f.add("nested-conditional-expression")
            if nested_call(x):
                f.add("nested-call")
    return f


def lazy_key(feats, extra=(), pname=None):
    """Which lazily evaluated position the extra calls were hoisted out of."""
    names = {c[0] for c in extra}
    sc = {f[3:] for f in feats if f.startswith("sc:")}
    br = {f[3:] for f in feats if f.startswith("br:")}
    if pname == "pipeline" and names and names <= sc:
        # the generator's pass order expands conditional expressions into guarded statements first: a call that
        # is still made although its operand is not evaluated came out of a short-circuit operand (the same
        # function may also occur in a conditional branch elsewhere in the program)
        return "short-circuit-operand-hoisted"
    if names and names <= sc and not names <= br:
        return "short-circuit-operand-hoisted"
    if names and names <= br and not names <= sc:
        return "conditional-expression-branch-operand-hoisted"
    if "call-in-conditional-expression-branch" in feats:
        return "conditional-expression-branch-operand-hoisted"
    return "short-circuit-operand-hoisted"


def lazy_funcs(e, where=None, acc=None):
    """Function names called in lazily evaluated positions: acc = {"br": set, "sc": set}."""
    if acc is None:
        acc = {"br": set(), "sc": set()}
    if e[0] == "call" and where:
        acc[where].add(e[1])
    if e[0] == "if":
        lazy_funcs(e[1], where, acc)
        lazy_funcs(e[2], "br", acc)
        lazy_funcs(e[3], "br", acc)
    elif e[0] in ("and", "or"):
        lazy_funcs(e[1], where, acc)
        for x in e[2:]:
            lazy_funcs(x, "sc", acc)
    else:
        for x in _kids(e):
            lazy_funcs(x, where, acc)
    return acc


def _kids(e):
    k = e[0]
    if k in ("num", "var", "cnum", "bool"):
        return []
    if k == "cmp":
        return [e[2], e[3]]
    if k == "call":
        return list(e[2]) + list(e[3].values())
    return [x for x in e[1:] if isinstance(x, list)]


def call_in_if_branch(e, inside=False, shortcircuit=False):
    """A call in a lazily evaluated position: a branch of a conditional
    expression (shortcircuit=False) or a non-first operand of a short-circuit
    and/or (shortcircuit=True)."""
    if e[0] == "call" and inside:
        return True
    if e[0] == "if" and not shortcircuit:
        return (call_in_if_branch(e[1], inside) or call_in_if_branch(e[2], True)
                or call_in_if_branch(e[3], True))
    if e[0] in ("and", "or") and shortcircuit:
        return (call_in_if_branch(e[1], inside, True)
                or any(call_in_if_branch(x, True, True) for x in e[2:]))
    return any(call_in_if_branch(x, inside, shortcircuit) for x in _kids(e))


def nested_if(e, inside=False):
    if e[0] == "if":
        if inside:
            return True
        return any(nested_if(x, True) for x in _kids(e))
    return any(nested_if(x, inside) for x in _kids(e))


def nested_call(e, inside=False):
    if e[0] == "call":
        if inside:
            return True
        return any(nested_call(x, True) for x in _kids(e))
    return any(nested_call(x, inside) for x in _kids(e))


def check_tree(tree, valuations, rec, wit, only_pass=None):
    from vf.rtree import ReadBeforeSet, TreeExec, statements, tree_names
    from vf.treewalk import show
    names_in, ids_in = tree_names(tree)
    feats = features(tree)
    kf = {x for x in feats if ":" not in x}        # features that may appear in mechanism keys
    changed_any = False
    for pname in ([only_pass] if only_pass else PASSES):
        w = dict(wit, **{"pass": pname})
        try:
            with case_alarm(20):
                out = apply_pass(pname, tree)
        except CaseTimeout:
            rec.violation(f"{pname}:pass-hangs", "pass did not return", w)
            continue
        except Exception as ex:
            key = "+".join(sorted(feats & {"nested-call"})) or "plain"
            rec.violation(f"{pname}:exception-{type(ex).__name__}-on-{key}",
                          f"pass {pname} raised {type(ex).__name__}: {ex}\n{show(tree)}", w)
            continue
        rec.count("passes_applied")
        s_in, s_out = show(tree), show(out)
        changed = s_in != s_out
        changed_any |= changed
        names_out, ids_out = tree_names(out)
        intro_names = names_out - names_in
        intro_ids = ids_out - ids_in
        rec.count("introduced_names_checked", len(intro_names) + len(intro_ids))
        out_ids = [s.id for s in statements(out)]
        if len(set(out_ids)) != len(out_ids):
            dup = sorted({x for x in out_ids if out_ids.count(x) > 1})
            rec.violation(f"{pname}:duplicate-statement-id", f"{dup} occurs twice after the pass\n{s_out}", w)
            continue
        bad = False
        for s in statements(out):
            if s.id in intro_ids:
                cap = set(s.get_written_variables()) & names_in
                if cap:
                    rec.violation(f"{pname}:introduced-statement-writes-existing-name",
                                  f"new statement [{s.id}] {s} assigns {sorted(cap)}, which the input already "
                                  f"uses\ninput:\n{s_in}", w)
                    bad = True
                    break
        if bad:
            continue
        for vi, init in enumerate(valuations):
            a = TreeExec(init, salt=vi + 3)
            try:
                a.run(tree)
            except (Undefined, ReadBeforeSet, OverflowError, ZeroDivisionError, TypeError, ValueError):
                rec.count("valuations_skipped_original_undefined")
                continue
            b = TreeExec(init, salt=vi + 3, introduced=intro_names)
            try:
                b.run(out)
            except ReadBeforeSet as r:
                if r.name in intro_names:
                    key = "+".join(sorted(kf)) or "plain"
                    rec.violation(f"{pname}:introduced-variable-read-before-set-on-{key}",
                                  f"{r.name!r} is read before any statement sets it\n{s_out}", dict(w, valuation=vi))
                else:
                    rec.violation(f"{pname}:original-variable-unset-after-pass",
                                  f"{r.name!r} unset in transformed tree only\n{s_out}", dict(w, valuation=vi))
                bad = True
                break
            except (Undefined, OverflowError, ZeroDivisionError, TypeError, ValueError) as ex:
                key = "+".join(sorted(kf)) or "plain"
                mech = f"{pname}:transformed-program-fails-where-original-does-not-on-{key}"
                if "call-in-lazily-evaluated-position" in feats:
                    # something hoisted out of a branch that is not taken is evaluated anyway
                    mech = f"{pname}:" + lazy_key(feats, pname=pname)
                rec.violation(mech,
                              f"{type(ex).__name__}: {ex}\n{s_out}", dict(w, valuation=vi))
                bad = True
                break
            rec.count("valuations_compared")
            for n in sorted(names_in):
                if (n in a.store) != (n in b.store):
                    # a variable only assigned in a hoisted, now unconditional statement etc.
                    rec.violation(f"{pname}:original-variable-definedness-changed",
                                  f"{n!r}: set in original {n in a.store}, in transformed {n in b.store}\n{s_out}",
                                  dict(w, valuation=vi))
                    bad = True
                    break
                if n in a.store and not values_equal(a.store[n], b.store[n], rtol=1e-12):
                    key = "+".join(sorted(kf)) or "plain"
                    rec.violation(f"{pname}:value-changed-on-{key}",
                                  f"{n!r}: original {a.store[n]!r}, transformed {b.store[n]!r}\ninput:\n{s_in}"
                                  f"output:\n{s_out}", dict(w, valuation=vi))
                    bad = True
                    break
            if bad:
                break
            if a.external != b.external:
                rec.violation(f"{pname}:externally-visible-statements-changed",
                              f"original {a.external}, transformed {b.external}\n{s_out}", dict(w, valuation=vi))
                break
            if sorted(map(repr, a.calls)) != sorted(map(repr, b.calls)):
                # multiset difference (a call the original makes once and the rewritten phase twice is an extra call)
                from collections import Counter
                ca, cb_ = Counter(map(repr, a.calls)), Counter(map(repr, b.calls))
                extra, missing = [], []
                for c in b.calls:
                    if cb_[repr(c)] > ca[repr(c)]:
                        extra.append(c)
                        cb_[repr(c)] -= 1
                ca2, cb2 = Counter(map(repr, a.calls)), Counter(map(repr, b.calls))
                for c in a.calls:
                    if ca2[repr(c)] > cb2[repr(c)]:
                        missing.append(c)
                        ca2[repr(c)] -= 1
                lazy_names = {f[3:] for f in feats if f.startswith(("br:", "sc:"))}
                # (an extra call to a function that occurs in NO lazily evaluated position cannot have been hoisted
                # out of one)
                repeated = [c for c in extra if repr(c) in ca and c[0] not in lazy_names]
                key = "+".join(sorted(feats & {"call-in-lazily-evaluated-position"})) or "plain"
                mech = f"{pname}:external-calls-changed-on-{key}"
                if repeated and not missing:
                    # the original makes this very call too, only less often: nothing was hoisted out of a position
                    # that is not evaluated
                    mech = f"{pname}:external-call-made-more-often"
                elif key != "plain" and not missing:
                    mech = f"{pname}:" + lazy_key(feats, extra, pname=pname)
                rec.violation(mech,
                              f"extra calls {extra[:3]}, missing calls {missing[:3]}\ninput:\n{s_in}output:\n{s_out}",
                              dict(w, valuation=vi))
                break
    return changed_any


def prog_valuations(script, names):
    from vf.backends import initial_context
    out = []
    for k in range(4):
        st = {"<t>": script["t0"] + k, "<dt>": script["dt0"]}
        for n, v in initial_context(script).items():
            st["<state>" + n] = v + k if not isinstance(v, np.ndarray) else v + k
        for n in names:
            if n.startswith("<p>") and n not in st:
                st[n] = 1.5 + k
        out.append(st)
    return out


def run_shard(shard, rec):
    from dagrt.codegen.dag_ast import create_ast_from_phase
    rng = random.Random(shard["seed"])
    for _ in range(shard["count"]):
        if shard["kind"] == "prog":
            script = prog.Gen(rng, profile="py", call_bias=rng.choice([0, 0.15, 0.3])).script()
            try:
                dag = prog.build(script)
            except Exception:
                continue
            for ph in script["phases"]:
                tree = create_ast_from_phase(dag, ph["name"])
                rec.count("trees_from_real_lowering")
                from vf.rtree import tree_names
                names, _ = tree_names(tree)
                ch = check_tree(tree, prog_valuations(script, names), rec, {"script": script, "phase": ph["name"]})
                rec.case([script, ph["name"]], nontrivial=ch)
        else:
            t = h_tree(rng)
            tree = build_tree(t)
            from vf.rtree import tree_names
            names, _ = tree_names(tree)
            vals = [hand_valuation(rng, sorted(names | set(FLAGS) | {"nb", "only_sub"})) for _ in range(6)]
            rec.count("handbuilt_trees")
            ch = check_tree(tree, vals, rec, {"tree": t})
            rec.case(t, nontrivial=ch)


def replay(witness, rec):
    from dagrt.codegen.dag_ast import create_ast_from_phase
    from vf.rtree import tree_names
    if "tree" in witness:
        tree = build_tree(witness["tree"])
        names, _ = tree_names(tree)
        rng = random.Random(0)
        vals = [hand_valuation(rng, sorted(names | set(FLAGS) | {"nb", "only_sub"})) for _ in range(12)]
        check_tree(tree, vals, rec, {"tree": witness["tree"]}, witness.get("pass"))
    else:
        dag = prog.build(witness["script"])
        tree = create_ast_from_phase(dag, witness["phase"])
        names, _ = tree_names(tree)
        check_tree(tree, prog_valuations(witness["script"], names), rec,
                   {"script": witness["script"], "phase": witness["phase"]}, witness.get("pass"))
    rec.case(witness)
