"""C17 — a reported expression match is a genuine match.

Monitor: postcondition over the real dagrt.expression.match (attached with
icontract, so calls made through the module attribute are judged with the
arguments really passed): the returned substitution binds only free names,
agrees with pre_match, and template[sigma] evaluates like the target at random
integer points under hash-based uninterpreted function tables (independent
evaluator, own substitution).  Completeness is not claimed and not checked."""
import random
from fractions import Fraction
import warnings

from vf.runner import CaseTimeout, case_alarm
from vf.sexpr import values_equal, Env, UFuncs, Undefined, ev, from_pym, size, srcable, to_pym, to_src, variables

ID = "C17"
LEVEL = "exploration"
RULE = ("template/target pairs over sums, products, calls (positional and keyword arguments, tagged function "
        "symbols), repeated variables and 0/1 constants, depth<=3, <=3 children; targets are instances of the "
        "template under a random substitution with AC-shuffled children (match should exist), perturbed "
        "instances, identity-match shapes (c*a+b*a vs c*a+a) and independent random terms; free sets random "
        "(explicit or derived from bound names); pre-matches consistent / inconsistent / non-candidate; "
        "operands passed as pymbolic objects or strings. Every returned substitution is evaluated at 6 points "
        "x 2 function tables. distinct = canonical JSON of (template, target, free, pre_match); non-trivial = "
        "the template has >=1 free variable and an operator")
ASSUMPTIONS = [
    "'same value for all valuations / interpretations' is sampled at 6 random integer valuations x 2 "
    "hash-based function tables (collision probability per point ~1e-3, all 12 must collide to mask a wrong match)",
    "an exponential AC search that exceeds the 2 s per-case alarm is inconclusive (counted), not a violation",
]
ANCHORS = ["dagrt.expression:match", "dagrt.expression:_ExtendedUnifier.map_call",
           "dagrt.expression:_ExtendedUnifier.map_modulo_identity"]
MIN_NONTRIVIAL = {"quick": 5000, "thorough": 251999}
REQUIRED_COUNTERS = {"quick": ["matches_returned", "match_points_evaluated", "no_match_valueerror"],
                     "thorough": ["matches_returned", "match_points_evaluated", "no_match_valueerror"]}
SHARD_TIMEOUT = {"quick": 900, "thorough": 3000}

VARS = ["a", "b", "c", "x", "y", "<state>u", "<p>w"]
FUNCS = ["f", "g", "<func>h", "<func>f"]
KWS = ["k", "m"]


def plan(tier, seed):
    per = 700 if tier == "quick" else 54000
    return [{"seed": f"C17:{seed}:{k}", "count": per} for k in range(16)]


# {{{ term generation

def gen_term(rng, depth, vars_=VARS, const_p=0.2):
    r = rng.random()
    if depth <= 0 or r < 0.3:
        if rng.random() < const_p:
            if rng.random() < 0.25:
                return ["num", rng.choice([2.5, 1000000.5, 0.1, 1e-10, 1e-12])]      # (floats: compared exactly)
            return ["num", rng.choice([0, 1, 1, 2, 3, 4])]
        return ["var", rng.choice(vars_)]
    if r < 0.55:
        n = rng.choice([2, 2, 3])
        return ["+"] + [gen_term(rng, depth - 1, vars_, const_p) for _ in range(n)]
    if r < 0.8:
        n = rng.choice([2, 2, 3])
        return ["*"] + [gen_term(rng, depth - 1, vars_, const_p) for _ in range(n)]
    nargs = rng.choice([1, 1, 2, 3])
    kws = rng.sample(KWS, rng.choice([0, 0, 1, 2, 2]))
    return ["call", rng.choice(FUNCS), [gen_term(rng, depth - 1, vars_, const_p) for _ in range(nargs)],
            {k: gen_term(rng, depth - 1, vars_, const_p) for k in kws}]


def fsyms(e, acc=None):
    if acc is None:
        acc = set()
    variables(e, set(), acc)
    return acc


def subst(e, sigma):
    """Own substitution on sexprs (function symbols too)."""
    k = e[0]
    if k in ("num", "cnum", "bool"):
        return e
    if k == "var":
        return sigma.get(e[1], e)
    if k == "call":
        fn = e[1]
        if fn in sigma:
            b = sigma[fn]
            if b[0] != "var":
                raise ValueError("function symbol bound to a non-symbol")
            fn = b[1]
        return ["call", fn, [subst(x, sigma) for x in e[2]],
                {n: subst(v, sigma) for n, v in (e[3] if len(e) > 3 else {}).items()}]
    if k == "cmp":
        return ["cmp", e[1], subst(e[2], sigma), subst(e[3], sigma)]
    return [k] + [subst(x, sigma) for x in e[1:]]


def occurrences(e, name):
    """Number of places (variable or function position) where `name` occurs."""
    k = e[0]
    if k in ("num", "cnum", "bool"):
        return 0
    if k == "var":
        return int(e[1] == name)
    if k == "call":
        return (int(e[1] == name) + sum(occurrences(x, name) for x in e[2])
                + sum(occurrences(v, name) for v in (e[3] if len(e) > 3 else {}).values()))
    if k == "cmp":
        return occurrences(e[2], name) + occurrences(e[3], name)
    return sum(occurrences(x, name) for x in e[1:])


def subst_all_but_one(e, sigma, name, skip, counter=None):
    """Like subst, but the skip-th occurrence of `name` keeps its template spelling (a near miss: every
    other occurrence of the free symbol was replaced)."""
    if counter is None:
        counter = [0]
    k = e[0]
    if k in ("num", "cnum", "bool"):
        return e
    if k == "var":
        if e[1] == name:
            counter[0] += 1
            if counter[0] - 1 == skip:
                return e
        return sigma.get(e[1], e)
    if k == "call":
        fn = e[1]
        keep = False
        if fn == name:
            counter[0] += 1
            keep = counter[0] - 1 == skip
        if fn in sigma and not keep:
            b = sigma[fn]
            if b[0] != "var":
                raise ValueError("function symbol bound to a non-symbol")
            fn = b[1]
        return ["call", fn, [subst_all_but_one(x, sigma, name, skip, counter) for x in e[2]],
                {n: subst_all_but_one(v, sigma, name, skip, counter)
                 for n, v in (e[3] if len(e) > 3 else {}).items()}]
    if k == "cmp":
        return ["cmp", e[1], subst_all_but_one(e[2], sigma, name, skip, counter),
                subst_all_but_one(e[3], sigma, name, skip, counter)]
    return [k] + [subst_all_but_one(x, sigma, name, skip, counter) for x in e[1:]]


def shuffle_ac(rng, e):
    k = e[0]
    if k in ("num", "var", "cnum", "bool"):
        return e
    if k in ("+", "*"):
        ch = [shuffle_ac(rng, x) for x in e[1:]]
        rng.shuffle(ch)
        return [k] + ch
    if k == "call":
        items = [(n, shuffle_ac(rng, v)) for n, v in e[3].items()]
        rng.shuffle(items)          # same keywords, written in another order
        return ["call", e[1], [shuffle_ac(rng, x) for x in e[2]], dict(items)]
    return [k] + [shuffle_ac(rng, x) for x in e[1:]]


def perturb(rng, e):
    """Change one spot."""
    k = e[0]
    if k == "num" and isinstance(e[1], float):
        # another number that is CLOSE to the constant (1e-5 relatively, or both tiny)
        return ["num", rng.choice([e[1] * (1 + 4e-6), e[1] + 1.0, e[1] * 3, e[1] * (1 - 2e-6)])]
    if k == "num":
        return ["num", e[1] + rng.choice([1, 2])]
    if k == "var":
        return ["var", rng.choice([v for v in VARS if v != e[1]])]
    if k == "call":
        r = rng.random()
        if r < 0.3:
            return ["call", rng.choice([f for f in FUNCS if f != e[1]]), e[2], e[3]]
        if r < 0.45 and e[3]:
            kw = dict(e[3])
            n = rng.choice(sorted(kw))
            kw["q" + n] = kw.pop(n)
            return ["call", e[1], e[2], kw]
        if r < 0.6 and len(e[2]) > 1:
            return ["call", e[1], e[2][:-1], e[3]]
        i = rng.randrange(len(e[2]))
        args = list(e[2])
        args[i] = perturb(rng, args[i])
        return ["call", e[1], args, e[3]]
    i = rng.randrange(1, len(e))
    out = list(e)
    out[i] = perturb(rng, e[i])
    return out


def gen_case(rng):
    cls = rng.choice(["instance", "instance", "instance", "perturbed", "independent", "identity",
                      "derived-free", "all-but-one-occurrence"])
    depth = rng.choice([1, 2, 2, 3])
    if cls == "identity":
        a, b, c = rng.sample(VARS[:5], 3)
        op, other = rng.choice([("*", "+"), ("+", "*")])
        t = [other, [op, ["var", c], ["var", a]], [op, ["var", b], ["var", a]]]
        e = [other, [op, ["var", c], ["var", a]], ["var", a]]
        if rng.random() < 0.5:
            t = ["call", "f", [t], {}]
            e = ["call", "f", [e], {}]
        free = [b] + ([a] if rng.random() < 0.3 else [])
        if rng.random() < 0.5:
            e = shuffle_ac(rng, e)
        return {"cls": cls, "template": t, "target": e, "free": sorted(free), "bound": None,
                "pre": None, "as_str": rng.random() < 0.3}
    t = gen_term(rng, depth)
    if cls == "all-but-one-occurrence" and rng.random() < 0.6:
        # one symbol (function or variable) used in several terms of a sum / product
        F = rng.choice(FUNCS)
        terms = []
        for _ in range(rng.choice([2, 2, 3])):
            c = ["call", F, [gen_term(rng, rng.choice([0, 0, 1])) for _ in range(rng.choice([1, 1, 2]))], {}]
            q = rng.random()
            terms.append(c if q < 0.4 else ["*", ["num", rng.choice([2, 3])], c] if q < 0.7 else
                         ["*", ["var", rng.choice(VARS)], c] if q < 0.85 else ["+", c, ["var", rng.choice(VARS)]])
        t = [rng.choice(["+", "+", "*"])] + terms
    tv = sorted(variables(t))
    fs = sorted(fsyms(t))
    free = [v for v in tv if rng.random() < 0.6]
    if fs and rng.random() < (0.7 if cls == "all-but-one-occurrence" else 0.3):
        free += rng.sample(fs, rng.randint(1, len(fs)))
    sigma0 = {}
    for v in free:
        if v in fs and v not in tv:
            sigma0[v] = ["var", rng.choice(FUNCS)]
        else:
            sigma0[v] = gen_term(rng, rng.choice([0, 0, 1, 2]), const_p=0.3)
    # target-side terms live in their own namespace: a (pre-)bound value may mention a name that is ALSO a free
    # variable of the template
    shared_name = None
    plain = [v for v in free if v in tv and v not in fs]
    if len(plain) >= 2 and rng.random() < 0.3:
        v, w = rng.sample(plain, 2)
        sigma0[v] = rng.choice([["var", w], ["+", ["var", w], ["num", 1]], ["*", ["num", 2], ["var", w]]])
        shared_name = v
    if cls == "independent":
        e = gen_term(rng, depth)
    else:
        try:
            e = shuffle_ac(rng, subst(t, sigma0)) if rng.random() < 0.7 else subst(t, sigma0)
        except ValueError:
            e = gen_term(rng, depth)
        if cls == "perturbed":
            e = perturb(rng, e)
        if shared_name is not None and rng.random() < 0.5:
            # near miss: the bindings applied one after the other instead of simultaneously
            try:
                e = subst(subst(t, {shared_name: sigma0[shared_name]}),
                          {k: v for k, v in sigma0.items() if k != shared_name})
                cls = cls + "+sequentially-substituted-target"
            except ValueError:
                pass
        if cls == "all-but-one-occurrence":
            multi = [v for v in free if occurrences(t, v) >= 2]
            if multi:
                v = rng.choice(sorted(multi))
                try:
                    e = subst_all_but_one(t, sigma0, v, rng.randrange(occurrences(t, v)))
                    if rng.random() < 0.3:
                        e = shuffle_ac(rng, e)
                except ValueError:
                    pass
    bound = None
    freearg = sorted(set(free))
    if cls == "derived-free":
        # free_variable_names=None: everything except `bound` is free
        allnames = set(tv) | set(fs)
        bound = sorted(allnames - set(free))
        freearg = None
    pre = None
    r = rng.random()
    if shared_name is not None and r < 0.8:
        pre = {shared_name: sigma0[shared_name]}
        cls = cls + "+prematch-value-mentions-free-name"
    elif free and r < 0.35:
        v = rng.choice(sorted(set(free)))
        mode = rng.choice(["consistent", "consistent", "inconsistent"])
        if mode == "consistent":
            pre = {v: sigma0[v]}
        elif v in fs and v not in tv:
            pre = {v: ["var", rng.choice(FUNCS)]}       # a function symbol can only stand for a symbol
        else:
            pre = {v: gen_term(rng, 1)}
    elif r < 0.42:
        cands = [v for v in VARS if v not in free and v not in fs]
        if cands and freearg is not None:
            pre = {rng.choice(cands): gen_term(rng, 0)}
            cls = cls + "+noncandidate-prematch"
    as_str = rng.random() < 0.3 and srcable(t) and srcable(e) and (
        pre is None or all(srcable(x) for x in pre.values()))
    return {"cls": cls, "template": t, "target": e, "free": freearg, "bound": bound,
            "pre": pre, "as_str": as_str}

# }}}


class Monitor:
    """Postcondition on the real match; records instead of raising."""

    def __init__(self, rec):
        self.rec = rec
        self.failures = []

    def attach(self):
        import icontract
        import dagrt.expression as E

        class MatchBroken(Exception):
            pass
        mon = self
        self._orig = E.match

        def genuine_match(template, expression, free_variable_names, bound_variable_names,
                          pre_match, result):
            mon.rec.count("match_contract_evaluations")
            why = judge(template, expression, free_variable_names, bound_variable_names,
                        pre_match, result, mon.rec)
            if why:
                mon.failures.append(why)
            return True

        E.match = icontract.ensure(genuine_match, error=MatchBroken)(E.match)
        return E.match

    def detach(self):
        import dagrt.expression as E
        E.match = self._orig


def _as_sexpr(x):
    if isinstance(x, str):
        from dagrt.expression import parse
        x = parse(x)
    return from_pym(x)


def judge(template, expression, free_names, bound_names, pre_match, result, rec):
    """Returns None or (mech, reason)."""
    t = _as_sexpr(template)
    e = _as_sexpr(expression)
    tv = variables(t)
    fs = fsyms(t)
    if free_names is None:
        free = (tv | fs) - set(bound_names or ())
    else:
        free = set(free_names)
    for name in result:
        if name not in free:
            return ("binds-non-free-name", f"substitution binds {name!r}, free names are {sorted(free)}")
    try:
        sigma = {n: from_pym(v) for n, v in result.items()}
    except ValueError as ex:
        return ("binding-not-an-expression", str(ex))
    try:
        inst = subst(t, sigma)
    except ValueError as ex:
        return ("function-symbol-bound-to-non-symbol", f"{ex}: {sigma}")
    names = sorted(variables(inst) | variables(e) |
                   {v for x in sigma.values() for v in variables(x)})
    pre = {}
    if pre_match:
        for n, v in pre_match.items():
            pre[n] = _as_sexpr(v)
    for pt in range(6):
        prng = random.Random(f"pt{pt}:{names}")
        store = {n: prng.randint(-7, 9) for n in names}
        for salt in (11, 23):
            # exact rational arithmetic: the float constants are the rationals they denote, and two ways of
            # associating a product or sum give the same value
            env = Env({n: Fraction(v) for n, v in store.items()}, UFuncs(salt), numconv=Fraction)
            try:
                v1 = ev(inst, env)
                v2 = ev(e, env)
            except Undefined as u:
                return ("unevaluable", f"cannot evaluate instantiated template: {u}")
            rec.count("match_points_evaluated")
            # (integers compare exactly; with float constants the two sides may associate products differently)
            same = (v1 == v2) if isinstance(v1, (int, Fraction)) and isinstance(v2, (int, Fraction)) \
                else values_equal(v1, v2, rtol=1e-9)
            if not same:
                return ("wrong-substitution",
                        f"template[sigma] = {v1} but target = {v2} at {store} (salt {salt}); sigma={sigma}")
            for n, pv in pre.items():
                if n in sigma:
                    if ev(pv, env) != ev(sigma[n], env):
                        return ("contradicts-pre-match",
                                f"pre_match[{n}]={pv} but sigma[{n}]={sigma[n]}")
    for n in pre:
        if n in tv | fs and n not in sigma:
            return ("pre-match-dropped", f"pre_match name {n!r} occurs in the template but is unbound in the result")
    return None


def run_case(case, rec, matchf, mon):
    t, e = case["template"], case["target"]
    if case["as_str"]:
        ta, ea = to_src(t), to_src(e)
        pre = {n: to_src(v) for n, v in case["pre"].items()} if case["pre"] else None
    else:
        ta, ea = to_pym(t), to_pym(e)
        pre = {n: to_pym(v) for n, v in case["pre"].items()} if case["pre"] else None
    kw = {}
    if case["free"] is not None:
        kw["free_variable_names"] = set(case["free"])
    if case["bound"] is not None:
        kw["bound_variable_names"] = set(case["bound"])
    if pre is not None:
        kw["pre_match"] = pre
    mon.failures.clear()
    try:
        with warnings.catch_warnings():
            warnings.simplefilter("ignore")
            with case_alarm(2.0):
                res = matchf(ta, ea, **kw)
    except CaseTimeout:
        rec.timeout()
        rec.count("ac_search_timeouts")
        return False
    except ValueError as ex:
        rec.count("no_match_valueerror")
        if "instance" == case["cls"] and case["pre"] is None:
            rec.count("instance_not_matched(completeness not claimed)")
        return True
    except Exception as ex:
        rec.violation(f"wrong-exception-{type(ex).__name__}",
                      f"match raised {type(ex).__name__}: {ex} (documented error is ValueError)", case)
        return True
    rec.count("matches_returned")
    rec.count("matches_in_class_" + case["cls"].split("+")[0])
    if "noncandidate-prematch" in case["cls"]:
        rec.violation("noncandidate-prematch-accepted",
                      "pre_match names a variable that is not a candidate, yet match returned", case)
    if not mon.failures:
        # contract must have run exactly once for this call
        pass
    for mech, why in mon.failures:
        rec.violation(mech, why, case)
    return True


def run_shard(shard, rec):
    rng = random.Random(shard["seed"])
    mon = Monitor(rec)
    matchf = mon.attach()
    try:
        for _ in range(shard["count"]):
            case = gen_case(rng)
            if size(case["template"]) > 40 or size(case["target"]) > 60:
                continue
            done = run_case(case, rec, matchf, mon)
            nt = bool(case["free"] or case["bound"] is not None) and case["template"][0] not in ("var", "num")
            rec.case(case, nontrivial=nt and done)
    finally:
        mon.detach()


def replay(witness, rec):
    mon = Monitor(rec)
    matchf = mon.attach()
    try:
        run_case(witness, rec, matchf, mon)
        rec.case(witness)
    finally:
        mon.detach()
