"""C04 — each step runs every statement of the phase once, after its dependencies.

Monitors: (A) a callback proxy passed as `target` to the real
ExecutionController: it logs every evaluate_condition / exec_* call and, inside
each callback, inspects the controller's own plan / plan_id_set / executed_ids
(invariant at a hook); (B) end-to-end through the real NumpyInterpreter.run():
every statement calls a tagged recording function (unique ids make the history
unambiguous) over multi-step histories with failed / switched steps."""
import itertools
import random
from itertools import islice

from vf.runner import CaseTimeout, case_alarm

ID = "C04"
LEVEL = "exploration"
RULE = ("random acyclic dependency graphs on 1-12 hand-written statements (Nop, Assign, YieldState, FailStep, "
        "SwitchPhase) with random string ids (set iteration order varies; shards also run under different "
        "PYTHONHASHSEEDs), random guard valuations, initial requests = all sinks or a strict subset, random "
        "dynamic requests returned from exec_* (for statements not yet planned, already planned, already "
        "executed); all DAGs on <=3 (thorough: <=4) nodes x all guard valuations exhaustively; plus multi-step "
        "histories through NumpyInterpreter.run() with failing/switching steps. distinct = canonical JSON of "
        "(graph, guards, requests); non-trivial = >=2 statements and >=1 dependency edge")
ASSUMPTIONS = [
    "'before anything already planned' is read literally (it is also what update_plan's docstring promises): "
    "between a dynamic request for R and the visit of R only unvisited dependencies of R may be visited",
    "a statement whose guard is false counts as visited when evaluate_condition was called for it",
]
ANCHORS = ["dagrt.language:ExecutionController.update_plan", "dagrt.language:ExecutionController.__call__",
           "dagrt.exec_numpy:NumpyInterpreter.run_single_step"]
MIN_NONTRIVIAL = {"quick": 10000, "thorough": 1050000}
REQUIRED_COUNTERS = {"quick": ["steps_controller", "steps_interpreter", "visits_checked", "dynamic_requests",
                               "hook_state_checks", "live_guard_contract_evaluations", "live_guard_effects_checked",
                               "multi_phase_steps_judged"],
                     "thorough": ["steps_controller", "steps_interpreter", "visits_checked", "dynamic_requests",
                                  "hook_state_checks", "live_guard_contract_evaluations",
                                  "live_guard_effects_checked", "multi_phase_steps_judged"]}
SHARD_TIMEOUT = {"quick": 900, "thorough": 3000}


def plan(tier, seed):
    sh = []
    per = 1500 if tier == "quick" else 200000
    for k in range(12):
        sh.append({"kind": "ctl", "seed": f"C04:{seed}:{k}", "count": per, "hashseed": k % 4})
    for k in range(4):
        sh.append({"kind": "exh", "k": k, "n": 4, "maxn": 3 if tier == "quick" else 4, "hashseed": k})
    per2 = 300 if tier == "quick" else 40000
    for k in range(8):
        sh.append({"kind": "e2e", "seed": f"C04:{seed}:e{k}", "count": per2, "hashseed": k % 4})
    return sh


# {{{ graph descriptions

def rand_graph(rng, n=None):
    n = n or rng.randint(1, 12)
    ids = []
    while len(ids) < n:
        s = rng.choice(["s", "a_", "zz", "stmt", "Q"]) + str(rng.randint(0, 999))
        if s not in ids:
            ids.append(s)
    order = ids[:]
    rng.shuffle(order)
    dens = rng.choice([0.15, 0.3, 0.6])
    deps = {x: [y for y in order[:i] if rng.random() < dens] for i, x in enumerate(order)}
    kinds = {x: rng.choice(["nop", "assign", "assign", "yield"]) for x in ids}
    return {"ids": ids, "deps": deps, "kinds": kinds}


def closure(deps, roots):
    seen = set()
    stack = list(roots)
    while stack:
        x = stack.pop()
        if x in seen:
            continue
        seen.add(x)
        stack.extend(deps[x])
    return seen


def sinks(g):
    dep_of_someone = {d for x in g["ids"] for d in g["deps"][x]}
    return [x for x in g["ids"] if x not in dep_of_someone]


def build_phase(g, for_interp=False):
    from dagrt.language import Assign, ExecutionPhase, FailStep, Nop, SwitchPhase, YieldState
    from pymbolic import var
    stmts = []
    for x in g["ids"]:
        kw = dict(id=x, depends_on=frozenset(g["deps"][x]))
        k = g["kinds"][x]
        if k == "nop":
            stmts.append(Nop(**kw))
        elif k == "assign":
            stmts.append(Assign("v_" + x, (), 1, **kw))
        elif k == "yield":
            stmts.append(YieldState(expression=1, component_id="c", time=0, time_id="t", **kw))
        elif k == "fail":
            stmts.append(FailStep(**kw))
        elif k == "switch":
            stmts.append(SwitchPhase("main", **kw))
    return ExecutionPhase("main", "main", frozenset(stmts) if len(stmts) % 2 else stmts)

# }}}


# {{{ (A) controller with callback proxy

class Proxy:
    def __init__(self, ec, guards, requests, rec):
        self.ec = ec
        self.guards = guards
        self.requests = requests       # stmt id -> list of ids requested when it executes
        self.rec = rec
        self.log = []                  # ("visit", id, guard) / ("exec", id) / ("request", by, [ids], plan-after?)
        self.state_errors = []
        self.pending = None

    def _hook(self, where, sid):
        ec = self.ec
        self.rec.count("hook_state_checks")
        plan = list(ec.plan)
        if len(set(plan)) != len(plan):
            self.state_errors.append(("plan-has-duplicates", f"at {where}({sid}): plan={plan}"))
        if set(plan) != set(ec.plan_id_set):
            self.state_errors.append(("plan-id-set-out-of-sync",
                                      f"at {where}({sid}): plan={plan} plan_id_set={sorted(ec.plan_id_set)}"))
        both = set(plan) & set(ec.executed_ids)
        if both:
            self.state_errors.append(("planned-and-executed", f"at {where}({sid}): {sorted(both)}"))
        # (when exactly a visited statement is entered into executed_ids is the controller's own
        # business -- only the observable consequences are judged: see check_controller)

    def evaluate_condition(self, stmt):
        self._hook("evaluate_condition", stmt.id)
        g = self.guards.get(stmt.id, True)
        self.log.append(("visit", stmt.id, g))
        return g

    def _exec(self, stmt):
        self._hook("exec", stmt.id)
        self.log.append(("exec", stmt.id))
        req = self.requests.get(stmt.id)
        if req is not None:
            self.log.append(("request", stmt.id, list(req), list(self.ec.plan), set(self.ec.executed_ids)))
            self.rec.count("dynamic_requests")
            if (len(stmt.id) + len(req)) % 2:
                # the request comes together with an event (a yield that also asks for more work)
                self.rec.count("dynamic_requests_with_event")
                return ("event", stmt.id), list(req)
            return None, list(req)
        if stmt.id.endswith("7"):
            return ("event", stmt.id), None
        return None

    exec_Nop = exec_Assign = exec_YieldState = exec_FailStep = exec_SwitchPhase = _exec
    exec_AssignFunctionCall = exec_Raise = _exec


def check_controller(case, rec, hang_s=20.0):
    from dagrt.language import DAGCode, ExecutionController
    g = case["graph"]
    phase = build_phase(g)
    dag = DAGCode({"main": phase}, "main")
    ec = ExecutionController(dag)
    px = Proxy(ec, case["guards"], case["requests"], rec)
    init = case["initial"]
    try:
        with case_alarm(hang_s):
            ec.reset()
            ec.update_plan(phase, init)
            events = list(islice(ec(phase, px), 10000))
    except CaseTimeout:
        rec.violation("controller-hang", "ExecutionController did not finish a <=12 statement step", case)
        return
    except Exception as ex:
        rec.violation(f"controller-exception-{type(ex).__name__}",
                      f"{type(ex).__name__}: {ex}", case)
        return
    rec.count("steps_controller")
    deps = g["deps"]
    for mech, why in px.state_errors[:1]:
        rec.violation("hook-" + mech, why, case)
        return
    visits = [e[1] for e in px.log if e[0] == "visit"]
    execs = [e[1] for e in px.log if e[0] == "exec"]
    rec.count("visits_checked", len(visits))
    # exactly once
    dup = [x for x in set(visits) if visits.count(x) > 1]
    if dup:
        rec.violation("statement-visited-twice", f"{sorted(dup)} visited more than once: {visits}", case)
        return
    # expected set
    requested_dyn = [r for e in px.log if e[0] == "request" for r in e[2]]
    want = closure(deps, list(init) + requested_dyn)
    if set(visits) != want:
        missing = sorted(want - set(visits))
        extra = sorted(set(visits) - want)
        rec.violation("statement-never-visited" if missing else "unrequested-statement-visited",
                      f"missing {missing}, extra {extra}; visits {visits}", case)
        return
    pos = {x: i for i, x in enumerate(visits)}
    for x in visits:
        for d in deps[x]:
            if pos[d] > pos[x]:
                rec.violation("visited-before-dependency", f"{x} visited before its dependency {d}: {visits}", case)
                return
    gd = case["guards"]
    for x in visits:
        if gd.get(x, True) != (x in execs):
            rec.violation("guard-not-respected",
                          f"{x}: guard {gd.get(x, True)} but exec called = {x in execs}", case)
            return
    if len(set(execs)) != len(execs):
        rec.violation("statement-executed-twice", f"{execs}", case)
        return
    # dynamic requests: R and its unvisited dependencies come before anything already planned
    logpos = 0
    for i, e in enumerate(px.log):
        if e[0] != "request":
            continue
        by, req, plan_after, executed = e[1], e[2], e[3], e[4]
        after = [x[1] for x in px.log[i + 1:] if x[0] == "visit"]
        for r in req:
            if r in executed:
                rec.count("requests_for_executed")
                continue
            need = closure(deps, [r]) - executed
            # everything visited up to and including r must belong to `need` or to the
            # unvisited closure of the other requests made in the same call
            allowed = set()
            for r2 in req:
                allowed |= closure(deps, [r2])
            upto = after[:after.index(r) + 1] if r in after else after
            # a later request (made by something visited before r) legitimately pre-empts
            for e2 in px.log[i + 1:]:
                if e2[0] == "visit" and e2[1] == r:
                    break
                if e2[0] == "request":
                    for r2 in e2[2]:
                        allowed |= closure(deps, [r2])
            bad = [x for x in upto if x not in allowed]
            rec.count("requests_order_checked")
            if bad:
                where = "already-planned" if r in case.get("_planned_hint", []) else ""
                was_planned = r in set(case["_plan_before"].get(by, []))
                rec.violation("dynamic-request-" + ("already-planned-not-moved-forward" if was_planned
                                                    else "not-executed-first"),
                              f"{by} requested {r}; visited before it although not among its dependencies: "
                              f"{bad}; order after request {after}", case)
                return


def gen_ctl_case(rng):
    g = rand_graph(rng)
    ids = g["ids"]
    guards = {x: rng.random() < 0.75 for x in ids}
    sk = sinks(g)
    if rng.random() < 0.7:
        init = list(sk)
    else:
        init = rng.sample(ids, rng.randint(1, len(ids)))
    rng.shuffle(init)
    requests = {}
    if rng.random() < 0.6:
        for x in rng.sample(ids, rng.randint(1, min(3, len(ids)))):
            requests[x] = rng.sample(ids, rng.randint(0, min(2, len(ids))))
    return {"graph": g, "guards": guards, "initial": init, "requests": requests}


def annotate_plan_before(case):
    """What was planned when each requester ran (needed only to name the
    mechanism): recomputed by a dry run of the real controller without requests."""
    from dagrt.language import DAGCode, ExecutionController
    g = case["graph"]
    phase = build_phase(g)
    ec = ExecutionController(DAGCode({"main": phase}, "main"))

    class Dry:
        def __init__(s):
            s.snap = {}

        def evaluate_condition(s, stmt):
            s.snap[stmt.id] = list(ec.plan)
            return False
    d = Dry()
    try:
        ec.reset()
        ec.update_plan(phase, case["initial"])
        list(islice(ec(phase, d), 10000))
    except Exception:
        pass
    case["_plan_before"] = d.snap

# }}}


# {{{ (B) end to end through the interpreter

def gen_e2e(rng):
    g = rand_graph(rng, rng.randint(2, 10))
    ids = g["ids"]
    # one or two flag-setting statements; guarded statements depend on them
    nflags = rng.randint(1, 2)
    flags = [f"g{j}" for j in range(nflags)]
    guard_of = {}
    for x in ids:
        if rng.random() < 0.4:
            guard_of[x] = rng.choice(flags)
        elif rng.random() < 0.12:
            # a guard that is a constant computed when the method was written (numpy truth values included)
            guard_of[x] = rng.choice(["@False", "@numpy.False_", "@numpy.True_", "@numpy.False_"])
    enders = {}
    for x in rng.sample(ids, rng.randint(0, min(2, len(ids)))):
        enders[x] = rng.choice(["fail", "switch"])
        guard_of.setdefault(x, rng.choice(flags))
    nsteps = rng.randint(2, 5)
    sched = [[rng.random() < 0.6 for _ in flags] for _ in range(nsteps + 8)]
    bare_nop = rng.random() < 0.3
    # (every third method is printed before it is run: reading a description must not change it)
    return {"graph": g, "flags": flags, "guard_of": guard_of, "enders": enders, "nsteps": nsteps,
            "sched": sched, "bare_nop": bare_nop, "printed": rng.random() < 0.35,
            # calls made for their effect only: no assignee
            "noassign": sorted(x for x in ids if rng.random() < 0.3),
            # runs bounded by an end time: the phase advances <t> first and yields somewhere in the middle
            "tend": rng.random() < 0.3}


def check_e2e(case, rec, hang_s=30.0):
    from dagrt.exec_numpy import NumpyInterpreter
    from dagrt.language import (Assign, AssignFunctionCall, DAGCode, ExecutionPhase, FailStep, Nop,
                                SwitchPhase)
    from pymbolic import var
    g = case["graph"]
    stmts = []
    for j, fl in enumerate(case["flags"]):
        stmts.append(AssignFunctionCall(("<cond>" + fl,), "<func>flag", (j,), id="set_" + fl))
    tend = bool(case.get("tend"))
    if tend:
        from dagrt.language import YieldState
        stmts.append(Assign("<t>", (), var("<t>") + 1, id="adv_t"))
        stmts.append(YieldState(expression=var("<t>"), component_id="tt", time=var("<t>"), time_id="mid",
                                id="yl", depends_on=frozenset(["adv_t"])))
    for x in g["ids"]:
        deps = set(g["deps"][x])
        if tend:
            deps.add("adv_t")
        cond = True
        if x in case["guard_of"] and case["guard_of"][x].startswith("@"):
            import numpy as _np
            cond = {"@False": False, "@numpy.False_": _np.float64(0.5) > 1, "@numpy.True_": _np.float64(0.5) < 1}[
                case["guard_of"][x]]
        elif x in case["guard_of"]:
            cond = var("<cond>" + case["guard_of"][x])
            deps.add("set_" + case["guard_of"][x])
        # (every third statement gets its dependencies as a one-shot iterable: the constructor takes any iterable)
        oneshot = g["ids"].index(x) % 3 == 1 and x not in case["enders"]
        kw = dict(id=x, depends_on=(d for d in sorted(deps)) if oneshot else frozenset(deps), condition=cond)
        if x in case["enders"]:
            # record first (as a dependency), then end the step
            stmts.append(AssignFunctionCall(("w_" + x,), "<func>rec", (g["ids"].index(x),), id="pre_" + x,
                                            depends_on=frozenset(deps), condition=cond))
            kw["depends_on"] = frozenset(deps | {"pre_" + x})
            stmts.append(FailStep(**kw) if case["enders"][x] == "fail" else SwitchPhase("main", **kw))
        else:
            asg = () if x in case.get("noassign", ()) else ("w_" + x,)
            stmts.append(AssignFunctionCall(asg, "<func>rec", (g["ids"].index(x),), **kw))
    if case["bare_nop"]:
        stmts.append(Nop(id="bare_nop", depends_on=frozenset([g["ids"][0]])))
    phase = ExecutionPhase("main", "main", frozenset(stmts))
    dag = DAGCode({"main": phase}, "main")
    if case.get("printed"):
        str(dag)
        rec.count("methods_printed_before_run")
    step = [0]
    calls = [[]]

    def f_flag(j):
        return bool(case["sched"][min(step[0], len(case["sched"]) - 1)][j])

    def f_rec(i):
        calls[-1].append(g["ids"][int(i)])
        return 1.0

    interp = NumpyInterpreter(dag, {"<func>flag": f_flag, "<func>rec": f_rec})
    interp.set_up(0.0, 1.0, {})
    outcomes = []
    try:
        with case_alarm(hang_s):
            runkw = {"t_end": case["nsteps"]} if tend else {"max_steps": case["nsteps"]}
            nev = 0
            for ev in islice(interp.run(**runkw), 60):
                nev += 1
                nm = type(ev).__name__
                if nm in ("StepCompleted", "StepFailed"):
                    outcomes.append(nm)
                    step[0] += 1
                    calls.append([])
                    if len(outcomes) >= case["nsteps"] + 6:
                        break
            else:
                # run() came to its end by itself: whatever was executed since the last reported outcome belongs
                # to a step that was started and then abandoned without a failure, switch or error
                if nev >= 60:
                    rec.count("event_cap_reached")
                elif calls[-1]:
                    rec.violation("e2e-step-abandoned-without-outcome",
                                  f"after {len(outcomes)} reported steps run({runkw}) returned with {calls[-1]} "
                                  f"executed and no outcome event", case)
                    return
                if tend and nev < 60:
                    rec.count("steps_interpreter_bounded_by_end_time", len(outcomes))
    except CaseTimeout:
        rec.violation("interpreter-hang", "run() did not produce events", case)
        return
    except Exception as ex:
        mech = f"interpreter-exception-{type(ex).__name__}"
        if case["bare_nop"] and isinstance(ex, AttributeError) and "condition" in str(ex):
            mech = "bare-nop-has-no-condition"
        rec.violation(mech, f"{type(ex).__name__}: {ex}", case)
        return
    deps = g["deps"]
    for k, outcome in enumerate(outcomes):
        rec.count("steps_interpreter")
        got = calls[k]
        fl = case["sched"][min(k, len(case["sched"]) - 1)]
        on = {f: fl[j] for j, f in enumerate(case["flags"])}

        def guard(x):
            gname = case["guard_of"].get(x)
            if gname is None:
                return True
            if gname.startswith("@"):
                return gname == "@numpy.True_"
            return on[gname]
        active_enders = [x for x in case["enders"] if guard(x)]
        rec.count("visits_checked", len(got))
        if len(set(got)) != len(got):
            rec.violation("e2e-statement-executed-twice", f"step {k}: calls {got}", case)
            return
        for x in got:
            if not guard(x):
                rec.violation("e2e-guard-false-statement-executed", f"step {k}: {x} ran, flags {on}", case)
                return
        pos = {x: i for i, x in enumerate(got)}
        for x in got:
            for d in deps[x]:
                if guard(d) and d not in pos:
                    rec.violation("e2e-executed-without-dependency", f"step {k}: {x} ran, dependency {d} did not: {got}", case)
                    return
                if d in pos and pos[d] > pos[x]:
                    rec.violation("e2e-executed-before-dependency", f"step {k}: {x} before {d}: {got}", case)
                    return
        want_all = {x for x in g["ids"] if guard(x)}
        if not active_enders:
            if outcome != "StepCompleted":
                rec.violation("e2e-unexpected-step-outcome", f"step {k}: {outcome} without an active fail/switch", case)
                return
            if set(got) != want_all:
                rec.violation("e2e-statement-skipped-in-complete-step",
                              f"step {k}: expected {sorted(want_all)}, got {got}", case)
                return
        else:
            # cut short: which ender fired is schedule dependent; its pre_ record must be last-ish
            kinds = {case["enders"][x] for x in active_enders}
            ok_outcomes = {"StepFailed" if "fail" in kinds else None, "StepCompleted" if "switch" in kinds else None}
            if outcome not in ok_outcomes:
                rec.violation("e2e-unexpected-step-outcome", f"step {k}: {outcome}, active enders {active_enders}", case)
                return
            if not any(x in got for x in active_enders):
                rec.violation("e2e-step-ended-without-ender", f"step {k}: {got}", case)
                return


# }}}


# {{{ several phases over the same statement ids, one interpreter (ids are only unique per phase)

def gen_e2e_phases(rng):
    g0 = rand_graph(rng, rng.randint(2, 8))
    pool = g0["ids"]
    nph = rng.randint(2, 3)
    flags = [f"g{j}" for j in range(rng.randint(1, 2))]
    phases = []
    for p in range(nph):
        if p == 0:
            ids, deps = list(pool), {x: list(g0["deps"][x]) for x in pool}
        else:
            # same ids (all, or all but one), another dependency graph; often the same sinks as phase 0
            ids = list(pool)
            if len(ids) > 2 and rng.random() < 0.3:
                ids.remove(rng.choice(ids))
            keep_sinks = rng.random() < 0.6
            s0 = [x for x in sinks(g0) if x in ids]
            inner = [x for x in ids if x not in s0] if keep_sinks else list(ids)
            rng.shuffle(inner)
            order = inner + (s0 if keep_sinks else [])
            deps = {}
            for i, x in enumerate(order):
                earlier = order[:i] if not (keep_sinks and x in s0) else inner
                deps[x] = sorted(rng.sample(earlier, min(len(earlier), rng.choice([0, 1, 1, 2]))))
        guard_of = {x: rng.choice(flags) for x in ids if rng.random() < 0.45}
        enders = {}
        if rng.random() < 0.4:
            x = rng.choice(ids)
            enders[x] = rng.choice(["fail", "switch"])
            guard_of.setdefault(x, rng.choice(flags))
        phases.append({"ids": ids, "deps": deps, "guard_of": guard_of, "enders": enders,
                       "switch_to": rng.randrange(nph), "next": rng.choice([(p + 1) % nph, (p + 1) % nph, p])})
    nsteps = rng.randint(3, 7)
    sched = [[rng.random() < 0.55 for _ in flags] for _ in range(nsteps + 8)]
    return {"phases": phases, "flags": flags, "nsteps": nsteps, "sched": sched, "graph": g0,
            "printed": rng.random() < 0.35}


def check_e2e_phases(case, rec, hang_s=30.0):
    from dagrt.exec_numpy import NumpyInterpreter
    from dagrt.language import AssignFunctionCall, DAGCode, ExecutionPhase, FailStep, SwitchPhase
    from pymbolic import var
    pool = case["graph"]["ids"]
    phs = {}
    for p, ph in enumerate(case["phases"]):
        stmts = []
        for j, fl in enumerate(case["flags"]):
            stmts.append(AssignFunctionCall(("<cond>" + fl,), "<func>flag", (j,), id="set_" + fl))
        for x in ph["ids"]:
            deps = set(ph["deps"][x])
            cond = True
            if x in ph["guard_of"]:
                cond = var("<cond>" + ph["guard_of"][x])
                deps.add("set_" + ph["guard_of"][x])
            code = 100 * p + pool.index(x)
            kw = dict(id=x, depends_on=frozenset(deps), condition=cond)
            if x in ph["enders"]:
                stmts.append(AssignFunctionCall(("w_" + x,), "<func>rec", (code,), id="pre_" + x,
                                                depends_on=frozenset(deps), condition=cond))
                kw["depends_on"] = frozenset(deps | {"pre_" + x})
                stmts.append(FailStep(**kw) if ph["enders"][x] == "fail"
                             else SwitchPhase(f"ph{ph['switch_to']}", **kw))
            else:
                asg = () if (pool.index(x) + p) % 3 == 0 else ("w_" + x,)      # (every third: effect only)
                stmts.append(AssignFunctionCall(asg, "<func>rec", (code,), **kw))
        phs[f"ph{p}"] = ExecutionPhase(f"ph{p}", f"ph{ph['next']}", frozenset(stmts))
    dag = DAGCode(phs, "ph0")
    if case.get("printed"):
        str(dag)
        rec.count("methods_printed_before_run")
    step = [0]
    calls = [[]]

    def f_flag(j):
        return bool(case["sched"][min(step[0], len(case["sched"]) - 1)][j])

    def f_rec(code):
        calls[-1].append((int(code) // 100, pool[int(code) % 100]))
        return 1.0

    interp = NumpyInterpreter(dag, {"<func>flag": f_flag, "<func>rec": f_rec})
    interp.set_up(0.0, 1.0, {})
    outcomes = []
    try:
        with case_alarm(hang_s):
            for ev in islice(interp.run(max_steps=case["nsteps"]), 80):
                nm = type(ev).__name__
                if nm in ("StepCompleted", "StepFailed"):
                    outcomes.append((nm, getattr(ev, "current_phase", None), getattr(ev, "next_phase", None)))
                    step[0] += 1
                    calls.append([])
                    if len(outcomes) >= case["nsteps"] + 6:
                        break
    except CaseTimeout:
        rec.violation("interpreter-hang", "run() did not produce events", case)
        return
    except Exception as ex:
        rec.violation(f"phases-interpreter-exception-{type(ex).__name__}", f"{type(ex).__name__}: {ex}", case)
        return
    expect_phase = 0
    for k, (outcome, cur, nxt) in enumerate(outcomes):
        rec.count("steps_interpreter")
        rec.count("steps_interpreter_multi_phase")
        got_pairs = calls[k]
        fl = case["sched"][min(k, len(case["sched"]) - 1)]
        on = {f: fl[j] for j, f in enumerate(case["flags"])}
        seen_ph = {p for p, _ in got_pairs}
        if len(seen_ph) > 1:
            rec.violation("phases-step-mixes-statements-of-two-phases", f"step {k}: {got_pairs}", case)
            return
        if cur is not None:
            p = int(cur[2:])
        elif seen_ph:
            p = seen_ph.pop()
        else:
            p = expect_phase
        if p is None:
            # (a failed step names no phase; nothing ran that would tell which one this was)
            rec.count("multi_phase_steps_of_unknown_phase")
            continue
        if expect_phase is not None and p != expect_phase:
            rec.violation("phases-wrong-phase-ran", f"step {k}: phase {p} ran, phase {expect_phase} was due", case)
            return
        if seen_ph - {p}:
            rec.violation("phases-statement-of-another-phase-ran",
                          f"step {k} (phase {p}) ran {got_pairs}", case)
            return
        ph = case["phases"][p]
        got = [x for _, x in got_pairs]

        def guard(x):
            return on[ph["guard_of"][x]] if x in ph["guard_of"] else True
        rec.count("visits_checked", len(got))
        if len(set(got)) != len(got):
            rec.violation("phases-statement-executed-twice", f"step {k} phase {p}: {got}", case)
            return
        for x in got:
            if x not in ph["ids"]:
                rec.violation("phases-statement-not-in-phase-executed", f"step {k} phase {p}: {x}", case)
                return
            if not guard(x):
                rec.violation("phases-guard-false-statement-executed",
                              f"step {k} phase {p}: {x} ran, flags {on}", case)
                return
        pos = {x: i for i, x in enumerate(got)}
        for x in got:
            for d in ph["deps"][x]:
                if guard(d) and d not in pos:
                    rec.violation("phases-executed-without-dependency",
                                  f"step {k} phase {p}: {x} ran, dependency {d} did not: {got}", case)
                    return
                if d in pos and pos[d] > pos[x]:
                    rec.violation("phases-executed-before-dependency",
                                  f"step {k} phase {p}: {x} before {d}: {got}", case)
                    return
        active = [x for x in ph["enders"] if guard(x)]
        if not active:
            if outcome != "StepCompleted":
                rec.violation("phases-unexpected-step-outcome",
                              f"step {k} phase {p}: {outcome} without an active fail/switch", case)
                return
            want_all = {x for x in ph["ids"] if guard(x)}
            if set(got) != want_all:
                rec.violation("phases-statement-skipped-in-complete-step",
                              f"step {k} phase {p}: expected {sorted(want_all)}, got {got}", case)
                return
            if nxt is not None and nxt != f"ph{ph['next']}":
                rec.violation("phases-wrong-successor", f"step {k} phase {p}: next {nxt}", case)
                return
            expect_phase = ph["next"]
        else:
            kind = ph["enders"][active[0]]
            if outcome != ("StepFailed" if kind == "fail" else "StepCompleted"):
                rec.violation("phases-unexpected-step-outcome",
                              f"step {k} phase {p}: {outcome}, active ender {active} ({kind})", case)
                return
            if active[0] not in got:
                rec.violation("phases-step-ended-without-ender", f"step {k} phase {p}: {got}", case)
                return
            # (which phase follows a failed step is not this property's business)
            expect_phase = ph["switch_to"] if kind == "switch" else None
        rec.count("multi_phase_steps_judged")

# }}}


# {{{ guards that read what guarded statements write (guard value at the moment of the visit)

GUARD_SHAPES = [["cmp", "<", ["var", "n"], ["num", 1]], ["cmp", "<", ["var", "n"], ["num", 2]],
                ["cmp", ">=", ["var", "n"], ["num", 2]], ["cmp", "<", ["var", "m"], ["num", 1]],
                ["and", ["cmp", "<", ["var", "n"], ["num", 3]], ["cmp", "<", ["var", "m"], ["num", 2]]],
                ["not", ["cmp", "<", ["var", "n"], ["num", 1]]]]


def gen_e2e_live(rng):
    g = rand_graph(rng, rng.randint(2, 8))
    ids = g["ids"]
    if rng.random() < 0.5:
        # a chain: consecutive statements are visited back to back
        g = {"ids": ids, "deps": {x: ([ids[i - 1]] if i else []) for i, x in enumerate(ids)}}
    shapes = rng.sample(range(len(GUARD_SHAPES)), rng.randint(1, 2))      # few distinct guards: many equal ones
    guard_of = {x: rng.choice(shapes) for x in ids if rng.random() < 0.75}
    effect = {x: rng.choice(["n", "n", "m", "rec"]) for x in ids}
    return {"live": True, "graph": g, "guard_of": guard_of, "effect": effect,
            "n0": rng.choice([0, 0, 1]), "m0": rng.choice([0, 1]), "nsteps": rng.randint(1, 3)}


def check_e2e_live(case, rec, hang_s=30.0):
    """Contract on the real NumpyInterpreter.evaluate_condition: what it answers is the value the statement's guard
    has in the interpreter's store at that moment; and a statement takes effect only then."""
    import icontract
    from dagrt.exec_numpy import NumpyInterpreter
    from dagrt.language import AssignFunctionCall, DAGCode, ExecutionPhase
    from pymbolic import var
    from vf.sexpr import Env, ev, from_pym, to_pym
    g = case["graph"]
    ids = g["ids"]
    stmts = [AssignFunctionCall(("n",), "<func>init", (0,), id="init_n"),
             AssignFunctionCall(("m",), "<func>init", (1,), id="init_m")]
    conds = {}
    for x in ids:
        deps = set(g["deps"][x]) | {"init_n", "init_m"}
        cond = to_pym(GUARD_SHAPES[case["guard_of"][x]]) if x in case["guard_of"] else True
        conds[x] = cond
        tgt = case["effect"][x]
        i = ids.index(x)
        if tgt == "rec":
            stmts.append(AssignFunctionCall(("w_" + x,), "<func>rec", (i,), id=x, depends_on=frozenset(deps),
                                            condition=cond))
        else:
            stmts.append(AssignFunctionCall((tgt,), "<func>bump", (var(tgt), i), id=x,
                                            depends_on=frozenset(deps), condition=cond))
    dag = DAGCode({"main": ExecutionPhase("main", "main", frozenset(stmts))}, "main")
    problems = []
    holder = {}

    def own_guard(cond):
        if cond is True:
            return True
        ctx = holder["interp"].context
        return bool(ev(from_pym(cond), Env({k: ctx[k] for k in ("n", "m") if k in ctx}, {})))

    def f_init(j):
        return case["n0"] if int(j) == 0 else case["m0"]

    def effect(i):
        x = ids[int(i)]
        rec.count("live_guard_effects_checked")
        if not own_guard(conds[x]):
            problems.append(("guard-false-statement-took-effect",
                             f"{x} (guard {conds[x]}) ran with n={holder['interp'].context.get('n')}, "
                             f"m={holder['interp'].context.get('m')}"))

    def f_bump(v, i):
        effect(i)
        return v + 1

    def f_rec(i):
        effect(i)
        return 1.0

    class GuardBroken(Exception):
        pass

    def answers_current_guard_value(self, stmt, result):
        rec.count("live_guard_contract_evaluations")
        cond = getattr(stmt, "condition", True)
        try:
            want = own_guard(cond)
        except Exception:
            rec.count("live_guard_not_evaluable_by_the_oracle")
            return True
        if bool(result) != want:
            problems.append(("evaluate-condition-differs-from-current-guard-value",
                             f"[{stmt.id}] guard {cond} is {want} in the store (n={self.context.get('n')}, "
                             f"m={self.context.get('m')}) but evaluate_condition answered {result}"))
        return True
    orig = NumpyInterpreter.evaluate_condition
    NumpyInterpreter.evaluate_condition = icontract.ensure(answers_current_guard_value, error=GuardBroken)(orig)
    try:
        interp = NumpyInterpreter(dag, {"<func>init": f_init, "<func>bump": f_bump, "<func>rec": f_rec})
        holder["interp"] = interp
        interp.set_up(0.0, 1.0, {})
        try:
            with case_alarm(hang_s):
                for _ in islice(interp.run(max_steps=case["nsteps"]), 40):
                    pass
        except CaseTimeout:
            rec.violation("interpreter-hang", "run() did not produce events", case)
            return
        except Exception as ex:
            rec.violation(f"interpreter-exception-{type(ex).__name__}", f"{type(ex).__name__}: {ex}", case)
            return
    finally:
        NumpyInterpreter.evaluate_condition = orig
    rec.count("steps_interpreter_live_guards", case["nsteps"])
    if problems:
        rec.violation(problems[0][0], problems[0][1], case)

# }}}


def all_small_dags(maxn):
    for n in range(1, maxn + 1):
        ids = ["n%d" % i for i in range(n)]
        pairs = [(i, j) for i in range(n) for j in range(i)]   # i depends on j (j<i): acyclic
        for mask in range(1 << len(pairs)):
            deps = {x: [] for x in ids}
            for b, (i, j) in enumerate(pairs):
                if mask >> b & 1:
                    deps[ids[i]].append(ids[j])
            yield {"ids": ids, "deps": deps, "kinds": {x: "assign" for x in ids}}


def run_shard(shard, rec):
    if shard["kind"] == "ctl":
        rng = random.Random(shard["seed"])
        for _ in range(shard["count"]):
            case = gen_ctl_case(rng)
            annotate_plan_before(case)
            check_controller(case, rec)
            pub = {k: v for k, v in case.items() if not k.startswith("_")}
            ne = sum(len(v) for v in case["graph"]["deps"].values())
            rec.case(pub, nontrivial=len(case["graph"]["ids"]) >= 2 and ne >= 1)
    elif shard["kind"] == "exh":
        idx = 0
        for g in all_small_dags(shard["maxn"]):
            ids = g["ids"]
            for bits in itertools.product([True, False], repeat=len(ids)):
                idx += 1
                if idx % shard["n"] != shard["k"]:
                    continue
                # one dynamic request pattern per case, rotating
                req = {}
                if len(ids) > 1:
                    a = ids[idx % len(ids)]
                    b = ids[(idx // 3) % len(ids)]
                    req = {a: [b]}
                case = {"graph": g, "guards": dict(zip(ids, bits)), "initial": sinks(g), "requests": req}
                annotate_plan_before(case)
                check_controller(case, rec)
                ne = sum(len(v) for v in g["deps"].values())
                rec.case({k: v for k, v in case.items() if not k.startswith("_")},
                         nontrivial=len(ids) >= 2 and ne >= 1, by_construction=True)
                rec.count("exhaustive_dag_x_guards")
        rec.cmax("max_exhaustive_nodes", shard["maxn"])
    else:
        rng = random.Random(shard["seed"])
        for i in range(shard["count"]):
            if i % 4 == 1:
                case = gen_e2e_phases(rng)
                check_e2e_phases(case, rec)
            else:
                case = gen_e2e(rng) if i % 3 else gen_e2e_live(rng)
                (check_e2e_live if case.get("live") else check_e2e)(case, rec)
            ne = sum(len(v) for v in case["graph"]["deps"].values())
            rec.case(case, nontrivial=ne >= 1)


def replay(witness, rec):
    if witness.get("live"):
        check_e2e_live(witness, rec)
    elif "phases" in witness:
        check_e2e_phases(witness, rec)
    elif "sched" in witness:
        check_e2e(witness, rec)
    else:
        annotate_plan_before(witness)
        check_controller(witness, rec)
    rec.case({k: v for k, v in witness.items() if not k.startswith("_")})
