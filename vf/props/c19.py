"""C19 — print / parse round trip of the dagrt expression language.

Monitor: metamorphic (str -> dagrt.expression.parse -> str) over generated
expressions with an independent evaluator for the value comparison."""
import itertools
import random

import numpy as np

from vf.runner import CaseTimeout, case_alarm
from fractions import Fraction

from vf.sexpr import (Env, LinFuncs, Undefined, ev, from_pym, minimise, size, to_pym, variables)

ID = "C19"
LEVEL = "exploration"
RULE = ("well-typed expressions over exactly the operator set the property lists (plain and tagged identifiers "
        "<state>y <p>x <func>f <cond>c <ret_state>y <t> <dt>; + * / ** unary minus; < <= > >= == !=; and/or/not; "
        "calls with keyword arguments; single and multi subscripts; conditional expressions; integer/float "
        "literals incl. negative, tiny, huge, integral floats): exhaustive to depth 2 over a reduced leaf set, "
        "seeded random to depth 5; plus backtick names. Each is printed with str(), parsed by the real parser, "
        "printed again, and both trees are evaluated at 4 valuations. distinct = canonical JSON; non-trivial = "
        "at least one operator")
ASSUMPTIONS = [
    "'same value under every valuation' is sampled at 4 random valuations (dyadic floats, arrays, hash-based functions)",
    "complex literals and Min/Max nodes are outside the listed language (non-deciding class, counted only)",
    "printing is pymbolic's stringifier (dagrt defines none of its own); parse is dagrt.expression.parse",
]
ANCHORS = ["dagrt.expression:parse", "dagrt.expression:_ExtendedParser.parse_terminal"]
MIN_NONTRIVIAL = {"quick": 8000, "thorough": 840000}
REQUIRED_COUNTERS = {"quick": ["round_trips", "value_points_compared", "backtick_names", "all_names_quoted_round_trips"],
                     "thorough": ["round_trips", "value_points_compared", "backtick_names", "all_names_quoted_round_trips"]}
SHARD_TIMEOUT = {"quick": 900, "thorough": 3000}

AVARS = ["x", "y_1", "<state>y", "<p>x", "<t>", "<dt>", "<ret_state>y", "kk", "info", "<p>inf_norm", "nan_seen", "e1", "E"]
BVARS = ["<cond>c", "flag", "<cond>", "<cond>_0", "done", "notdone"]       # (<cond> alone is what CodeBuilder.if_ issues first)
ARRS = ["arr", "<state>vec"]
MATS = ["mat"]
FUNCS = ["f", "<func>f", "<func>rhs_2", "<builtin>norm_2"]
NUMS = [0, 1, 2, 3, 7, -1, -2, 0.5, 2.0, -1.5, 1e-12, 1.5e300, 100, 0.1, 3.25, 1e22,
        # floats that print in exponent notation with a mantissa that is not round in binary (every digit counts)
        1.1e-05, 3.3e-07, 1.7e-09, 8.1e-11, 1e+23, 6.02214076e+23, 1.2345678901234567e-05, 5e-324, 1.7976931348623157e+308]
CMPS = ["<", "<=", ">", ">=", "==", "!="]


def plan(tier, seed):
    sh = [{"kind": "exh", "k": k, "n": 8} for k in range(8)]
    per = 1500 if tier == "quick" else 160000
    sh += [{"kind": "rand", "seed": f"C19:{seed}:{k}", "count": per} for k in range(16)]
    sh.append({"kind": "names"})
    return sh


# {{{ generators

def _int_to_float(e):
    if e[0] == "num" and isinstance(e[1], int) and not isinstance(e[1], bool):
        return ["num", float(e[1])]
    if e[0] in ("num", "var", "cnum", "bool"):
        return e
    if e[0] == "cmp":
        return ["cmp", e[1], _int_to_float(e[2]), _int_to_float(e[3])]
    if e[0] == "call":
        return ["call", e[1], [_int_to_float(x) for x in e[2]], {k: _int_to_float(v) for k, v in e[3].items()}]
    return [e[0]] + [_int_to_float(x) if isinstance(x, list) else x for x in e[1:]]


def g_arith(rng, d):
    if d >= 2 and rng.random() < 0.03:
        # twin sub-terms that differ only in the TYPE of a literal (2 vs 2.0): equal as values, different as text
        t = g_arith(rng, d - 1)
        u = _int_to_float(t)
        if repr(u) != repr(t):          # (2 == 2.0: compare the spelling)
            return [rng.choice(["+", "*", "-"]), t, u] if rng.random() < 0.7 else \
                ["call", rng.choice(FUNCS), [t, u], {}]
    r = rng.random()
    if d > 0 and rng.random() < 0.03:
        # a truth value in an arithmetic position ('not a + 1', '(a < b)*2', 'not a < b'): the printer has to
        # parenthesise by precedence, whatever the operand means
        e = rng.choice([["not", g_bool(rng, d - 1)], g_bool(rng, d - 1), ["not", ["var", rng.choice(BVARS)]]])
        # (a truth-value LITERAL is only generated in boolean positions: pymbolic's parser asserts that the
        # operands of arithmetic are not literal booleans, 'True*x' is not an expression it reads)
        return e if e[0] != "bool" else ["var", rng.choice(BVARS)]
    if d <= 0 or r < 0.22:
        if rng.random() < 0.35:
            return ["num", rng.choice(NUMS)]
        return ["var", rng.choice(AVARS)]
    if r < 0.36:
        return ["+"] + [g_arith(rng, d - 1) for _ in range(rng.choice([2, 2, 3]))]
    if r < 0.48:
        return ["*"] + [g_arith(rng, d - 1) for _ in range(rng.choice([2, 2, 3]))]
    if r < 0.54:
        return ["-", g_arith(rng, d - 1), g_arith(rng, d - 1)]
    if r < 0.60:
        return ["neg", g_arith(rng, d - 1)]
    if r < 0.68:
        return ["/", g_arith(rng, d - 1), g_arith(rng, d - 1)]
    if r < 0.78:
        ex = rng.choice([["num", 2], ["num", 3], ["num", -1], ["var", "kk"], None])
        if ex is None:
            ex = g_arith(rng, d - 1)
        return ["**", g_arith(rng, d - 1), ex]
    if r < 0.86:
        kws = rng.sample(["k", "tol"], rng.choice([0, 0, 1, 2]))
        return ["call", rng.choice(FUNCS), [g_arith(rng, d - 1) for _ in range(rng.choice([0, 1, 2, 3]))],
                {k: g_arith(rng, d - 1) for k in kws}]
    if r < 0.91:
        return ["sub", ["var", rng.choice(ARRS)], rng.choice([["num", 0], ["num", 2], ["var", "kk"],
                                                              ["+", ["var", "kk"], ["num", 1]]])]
    if r < 0.925:
        # a one-entry index TUPLE (what var("a")[i,] and Assign's own left-hand sides hold); prints as a[i]
        return ["msub", ["var", rng.choice(ARRS)], rng.choice([["num", 0], ["var", "kk"]])]
    if r < 0.94:
        return ["msub", ["var", "mat"], rng.choice([["num", 0], ["var", "kk"]]),
                rng.choice([["num", 1], ["var", "kk"]])]
    return ["if", g_bool(rng, d - 1), g_arith(rng, d - 1), g_arith(rng, d - 1)]


def g_bool(rng, d):
    r = rng.random()
    if rng.random() < 0.04:
        return ["bool", rng.choice([True, False])]        # truth-value literals ('True', 'False')
    if d <= 0 or r < 0.2:
        if r < 0.1:
            return ["var", rng.choice(BVARS)]
        return ["cmp", rng.choice(CMPS), g_arith(rng, 0), g_arith(rng, 0)]
    if r < 0.5:
        return ["cmp", rng.choice(CMPS), g_arith(rng, d - 1), g_arith(rng, d - 1)]
    if r < 0.65:
        return ["and"] + [g_bool(rng, d - 1) for _ in range(rng.choice([2, 2, 3]))]
    if r < 0.8:
        return ["or"] + [g_bool(rng, d - 1) for _ in range(rng.choice([2, 2, 3]))]
    if r < 0.92:
        return ["not", g_bool(rng, d - 1)]
    return ["if", g_bool(rng, d - 1), g_bool(rng, d - 1), g_bool(rng, d - 1)]


L_A = [["var", "x"], ["var", "<state>y"], ["num", 2], ["num", -1.5]]
L_B = [["var", "<cond>c"], ["bool", True]]


def exh_level(prev_a, prev_b):
    """All expressions with one more operator layer over (prev_a, prev_b)."""
    A, B = [], []
    for a, b in itertools.product(prev_a, repeat=2):
        A += [["+", a, b], ["*", a, b], ["-", a, b], ["/", a, b], ["**", a, b]]
        for op in CMPS:
            B.append(["cmp", op, a, b])
        A.append(["call", "<func>f", [a], {"k": b}])
    for a in prev_a:
        A += [["neg", a], ["call", "f", [a], {}], ["sub", ["var", "arr"], a],
              ["**", a, ["num", 2]], ["**", ["num", 2], a]]
    for a, b in itertools.product(prev_b, repeat=2):
        B += [["and", a, b], ["or", a, b]]
    for a in prev_b:
        B.append(["not", a])
        for t, e in itertools.product(prev_a[:3], repeat=2):
            A.append(["if", a, t, e])
    return A, B


def exhaustive():
    a0, b0 = L_A, L_B
    a1, b1 = exh_level(a0, b0)
    yield from a1
    yield from b1
    # depth 2 over a thinned depth-1 layer (the full product is ~1e5 and dominated by duplicates of shape)
    thin_a = a0 + a1[::3]
    thin_b = b0 + b1[::3]
    a2, b2 = exh_level(thin_a, thin_b)
    yield from a2
    yield from b2

# }}}


def valuation(pt, names):
    """Per-name values that do not depend on which other names occur, so a
    sub-expression sees the same point as the expression it was cut from."""
    Q = [Fraction(1, 2), Fraction(1), Fraction(2), Fraction(-3, 2), Fraction(3), Fraction(-1, 4), Fraction(4)]
    st = {}
    for n in sorted(names):
        prng = random.Random(f"p{pt}:{n}")
        if n in BVARS:
            st[n] = prng.random() < 0.5
        elif n in ARRS:
            st[n] = np.array([prng.choice(Q) for _ in range(6)], dtype=object)
        elif n in MATS:
            st[n] = np.array([[prng.choice(Q) for _ in range(4)] for _ in range(4)], dtype=object)
        elif n == "kk":
            st[n] = Fraction([3, 2, 1, 3, 2, 3][pt % 6])
        else:
            st[n] = prng.choice(Q)
    return st


def exact(x):
    if isinstance(x, bool):
        return x
    return Fraction(x)


def short(v):
    """repr() of possibly gigantic exact values (Python refuses to print ints with > 4300 digits)."""
    try:
        s = str(v)
    except ValueError:
        return "<%s with a huge numerator>" % type(v).__name__
    return s if len(s) < 120 else s[:60] + "..." + s[-40:]


def deciding(e):
    from vf.sexpr import has
    return not has(e, {"cnum", "min", "max"})


def roundtrip(e, rec=None):
    """Returns None or (reason_code, text)."""
    from dagrt.expression import parse
    pe = to_pym(e)
    s1 = str(pe)
    try:
        with case_alarm(10):
            back = parse(s1)
    except CaseTimeout:
        raise
    except Exception as ex:
        return ("parse-raises", f"parse({s1!r}) raised {type(ex).__name__}: {ex}")
    s2 = str(back)
    try:
        sb = from_pym(back)
    except ValueError as ex:
        return ("parse-gives-foreign-node", f"parse({s1!r}) -> {ex}")
    v1, v2 = variables(e), variables(sb)
    f1, f2 = set(), set()
    variables(e, set(), f1)
    variables(sb, set(), f2)
    if v1 | f1 != v2 | f2:
        return ("variables-differ", f"{s1!r}: variables {sorted(v1 | f1)} became {sorted(v2 | f2)}")
    # ... and as the library itself counts them (what dependency tracking sees)
    from dagrt.utils import get_variables
    g1, g2 = set(get_variables(pe)), set(get_variables(back))
    if rec is not None:
        rec.count("library_variable_sets_compared")
    if g1 != g2:
        return ("library-variable-sets-differ",
                f"{s1!r}: get_variables of the expression {sorted(g1)}, of its re-parsed form {sorted(g2)}")
    if g1 != v1:
        return ("library-variable-set-wrong", f"{s1!r}: get_variables gives {sorted(g1)}, the expression mentions "
                f"{sorted(v1)}")
    names = v1 | v2
    for pt in range(5):
        st = valuation(pt, names)
        try:
            a = ev(e, Env(st, LinFuncs(3), numconv=exact))
        except Undefined:
            continue
        try:
            b = ev(sb, Env(st, LinFuncs(3), numconv=exact))
        except Undefined as ex:
            return ("value-differs", f"{s1!r}: original = {short(a)}, re-parsed tree not evaluable ({ex}) at point {pt}")
        if rec is not None:
            rec.count("value_points_compared")
        if isinstance(a, np.ndarray) or isinstance(b, np.ndarray):
            same = (isinstance(a, np.ndarray) and isinstance(b, np.ndarray)
                    and a.shape == b.shape and bool((a == b).all()))
        else:
            same = type(a) is type(b) or not (isinstance(a, bool) or isinstance(b, bool))
            same = same and a == b
        if not same:
            return ("value-differs", f"{s1!r} -> {s2!r}: original = {short(a)}, re-parsed = {short(b)} at point {pt} "
                    f"(exact rational arithmetic)")
    if s1 != s2:
        return ("prints-differently", f"{s1!r} re-parsed prints {s2!r}")
    # the same text with EVERY name written between backticks must denote the same expression
    # (pymbolic prints products, powers, calls and subscripts without blanks, so quoted names end up adjacent)
    from pymbolic.mapper.substitutor import SubstitutionMapper
    from pymbolic.primitives import Variable

    def quote(v):
        if isinstance(v, Variable) and not v.name.startswith("`"):
            return Variable("`" + v.name + "`")
        return None
    try:
        sq = str(SubstitutionMapper(quote)(pe))
    except Exception:
        return None
    if "`" not in sq:
        return None
    try:
        with case_alarm(10):
            backq = parse(sq)
    except CaseTimeout:
        raise
    except Exception as ex:
        return ("quoted-parse-raises", f"parse({sq!r}) raised {type(ex).__name__}: {ex}")
    if rec is not None:
        rec.count("all_names_quoted_round_trips")
    if backq != back:
        return ("quoted-names-parse-differently", f"parse({sq!r}) = {backq!r}, but parse({s1!r}) = {back!r}")
    return None


def _args_of(m):
    if m[0] == "call":
        return list(m[2]) + list((m[3] if len(m) > 3 else {}).values())
    if m[0] == "msub":
        return list(m[2:])
    return []


def has_if_arg_before_arg(e):
    """A call / multi-subscript in which a conditional expression is an
    argument that is followed by another argument."""
    k = e[0]
    if k in ("num", "var", "cnum", "bool"):
        return False
    args = _args_of(e)
    if any(a[0] == "if" for a in args[:-1]):
        return True
    subs = ([e[2], e[3]] if k == "cmp" else args if k in ("call",) else
            [x for x in e[1:] if isinstance(x, list)])
    return any(has_if_arg_before_arg(x) for x in subs if isinstance(x, list))


def has_right_nested_comparison(e):
    k = e[0]
    if k in ("num", "var", "cnum", "bool"):
        return False
    if k == "cmp" and e[3][0] == "cmp":
        return True
    subs = ([e[2], e[3]] if k == "cmp" else _args_of(e) if k == "call" else
            [x for x in e[1:] if isinstance(x, list)])
    return any(has_right_nested_comparison(x) for x in subs)


def has_left_nested_power(e):
    k = e[0]
    if k in ("num", "var", "cnum", "bool"):
        return False
    if k == "**" and e[1][0] == "**":
        return True
    subs = ([e[2], e[3]] if k == "cmp" else _args_of(e) if k == "call" else
            [x for x in e[1:] if isinstance(x, list)])
    return any(has_left_nested_power(x) for x in subs)


def classify(code, e):
    """Mechanism key from the minimised witness (structure, never values)."""
    m = minimise(e, lambda x: (roundtrip(x) or (None,))[0] == code, budget=250)
    k = m[0]
    args = _args_of(m)
    if k in ("call", "msub") and any(a[0] == "if" for a in args[:-1]):
        return "ifexpr-argument-followed-by-argument", m
    if k == "**" and m[1][0] == "**":
        return "left-nested-power", m
    if k == "cmp" and m[3][0] == "cmp":
        return "right-nested-comparison", m
    if k == "**":
        b = m[1]
        base = ("negative-literal" if (b[0] == "num" and b[1] < 0) else b[0])
        x = m[2]
        expo = ("negative-literal" if (x[0] == "num" and x[1] < 0) else x[0])
        return f"{code}:power({base},{expo})", m
    if k == "num":
        v = m[1]
        return f"{code}:literal-" + ("negative-" if v < 0 else "") + type(v).__name__, m
    kinds = []
    for p in ([m[2], m[3]] if k == "cmp" else (args if k in ("call", "msub") else m[1:])):
        if isinstance(p, list):
            kinds.append(("neglit" if (p[0] == "num" and p[1] < 0) else p[0]))
    return f"{code}:{k}(" + ",".join(sorted(set(kinds))) + ")", m


def check_expr(e, rec):
    try:
        why = roundtrip(e, rec)
    except CaseTimeout:
        rec.timeout()
        return False
    rec.count("round_trips")
    if why is None:
        return True
    if not deciding(e):
        rec.count("nondeciding_" + why[0])
        return True
    try:
        mech, m = classify(why[0], e)
        why2 = roundtrip(m) or why
    except CaseTimeout:
        mech, m, why2 = why[0] + ":unminimised", e, why
    rec.violation(mech, why2[1], {"expr": m, "original": e if size(e) < 40 else None})
    return True


def run_shard(shard, rec):
    if shard["kind"] == "exh":
        for i, e in enumerate(exhaustive()):
            if i % shard["n"] != shard["k"]:
                continue
            check_expr(e, rec)
            rec.case(e, nontrivial=True)
            rec.count("exhaustive_expressions")
    elif shard["kind"] == "rand":
        rng = random.Random(shard["seed"])
        for i in range(shard["count"]):
            d = rng.choice([1, 2, 3, 3, 4, 5])
            e = g_bool(rng, d) if rng.random() < 0.25 else g_arith(rng, d)
            if i % 25 == 24:
                e = rng.choice([["*", ["cnum", 0.0, 1.0], e], ["max", e, ["num", 1]], ["min", ["var", "x"], e]])
            if size(e) > 80:
                continue
            if (has_left_nested_power(e) or has_right_nested_comparison(e)) and rng.random() < 0.9:
                # the open findings (pymbolic's printer): keep most of the
                # corpus free of them so they cannot hide anything else
                rec.count("regenerated_to_avoid_known_shapes")
                continue
            check_expr(e, rec)
            rec.case(e, nontrivial=(e[0] not in ("var", "num") and deciding(e)))
            rec.count("random_expressions")
    else:
        from dagrt.expression import parse
        from pymbolic.primitives import Variable
        names = ["x", "<state>y", "<p>x", "<func>f", "<cond>c", "<ret_state>y", "<t>", "<dt>",
                 "<builtin>norm_2", "a:b", "y_0", "<ret_time_id>y", "<ret_time>y", "A9_z", "0abc", "9"]
        for n in names:
            try:
                got = parse("`" + n + "`")
            except Exception as ex:
                rec.violation("backtick-parse-raises", f"parse('`{n}`') raised {type(ex).__name__}: {ex}",
                              {"name": n})
                continue
            rec.count("backtick_names")
            rec.case(["backtick", n])
            if not (isinstance(got, Variable) and got.name == n):
                rec.violation("backtick-name-wrong", f"parse('`{n}`') = {got!r}", {"name": n})
            # inside an expression, as function symbol and as operand
            try:
                got = from_pym(parse("`" + n + "`(1, k=`" + n + "`) + `" + n + "`[2]"))
            except Exception as ex:
                rec.violation("backtick-parse-raises", f"backtick name {n!r} in call/subscript position: "
                              f"{type(ex).__name__}: {ex}", {"name": n, "context": "call"})
                continue
            want = ["+", ["call", n, [["num", 1]], {"k": ["var", n]}], ["sub", ["var", n], ["num", 2]]]
            rec.count("backtick_names")
            if got != want:
                rec.violation("backtick-name-wrong", f"backtick {n!r} in context parsed as {got}",
                              {"name": n, "context": "call"})
        # tagged identifiers without backticks
        for n in ["<state>y", "<p>x", "<func>f", "<cond>c", "<ret_state>y", "<t>", "<dt>"]:
            try:
                got = parse(n + " + 1")
                ok = from_pym(got) == ["+", ["var", n], ["num", 1]]
            except Exception as ex:
                ok = False
                got = ex
            rec.count("tagged_identifiers")
            rec.case(["tagged", n])
            if not ok:
                rec.violation("tagged-identifier-misparsed", f"parse('{n} + 1') = {got!r}", {"name": n})
        # an expression that is nothing but one atom: literals, names, tagged names, each alone
        atoms = [["bool", True], ["bool", False], ["num", 0], ["num", 1], ["num", 2.5], ["num", 1e22],
                 ["var", "x"], ["var", "<state>y"], ["var", "<dt>"], ["var", "<cond>_0"], ["var", "kk"],
                 ["var", "nan"], ["var", "inf"], ["var", "None"], ["var", "true"], ["var", "andy"],
                 ["var", "not_a"], ["var", "if_"], ["var", "else0"], ["var", "e1"], ["var", "j"]]
        for a in atoms:
            check_expr(a, rec)
            rec.count("lone_atoms")
            rec.case(["atom", a])


def replay(witness, rec):
    if "expr" in witness:
        check_expr(witness["expr"], rec)
        rec.case(witness["expr"])
