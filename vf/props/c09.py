"""C09 — inferred kinds agree with the values computed at run time.

Monitor: store-write monitor.  The real infer_kinds runs on the built DAG; the
real interpreter then executes the program statement by statement with a
recording store, and every value it stores into a variable is checked against
the table (R_kind conformance relation).  Built-in implementations are
additionally judged in isolation against get_result_kinds of their registry
entries over argument grids."""
import io
import itertools
import random
from contextlib import redirect_stdout

import numpy as np

from vf import backends, prog
from vf.runner import CaseTimeout, case_alarm
from vf.sexpr import Undefined

ID = "C09"
LEVEL = "exploration"
RULE = ("(a) G_prog 'py' programs extended with complex-valued assignments (powers, quotients incl. counter/"
        "counter, comparisons, min/max, subscripts, built-in and user calls), user functions registered with "
        "fixed result kinds; (b) user-type programs (tagged vectors, registered right-hand sides, norms, "
        "elementwise_abs, dot products, isnan, len, moves to and from <state>); each executed by the real "
        "interpreter from the state in which each phase first runs, every stored value checked against the kind "
        "infer_kinds gave the variable; (c) every built-in x a grid of argument values (real/complex scalars, "
        "ints, real/complex arrays of several lengths, tagged user vectors and 2x2 / 3x2 user matrices) against "
        "get_result_kinds. "
        "distinct = canonical JSON of the program / (builtin, argument kinds); non-trivial = inference "
        "succeeded and >=3 differently named variables were stored")
ASSUMPTIONS = [
    "conformance: bool<=Boolean; int<=Integer<=Scalar(real)<=Scalar(complex); float<=Scalar(real); "
    "complex<=Scalar(complex) only; real 1-D ndarray<=Array(real)<=Array(complex); complex ndarray<=Array(complex) "
    "only; tagged user vectors conform to UserType(tag) only ('is_real_valued' means definitely real, so a real "
    "value under a complex kind is fine, the reverse is the violation)",
    "programs on which inference raises are outside the property's quantifier (counted)",
]
ANCHORS = ["dagrt.data:infer_kinds", "dagrt.data:KindInferenceMapper.map_power",
           "dagrt.data:KindInferenceMapper.map_quotient", "dagrt.data:KindInferenceMapper.map_generic_call",
           "dagrt.builtins_python:builtin_isnan"]
MIN_NONTRIVIAL = {"quick": 1200, "thorough": 105000}
REQUIRED_COUNTERS = {"quick": ["stored_values_checked", "inference_succeeded", "builtin_results_checked",
                               "usertype_programs"],
                     "thorough": ["stored_values_checked", "inference_succeeded", "builtin_results_checked",
                                  "usertype_programs"]}
SHARD_TIMEOUT = {"quick": 900, "thorough": 3400}


def plan(tier, seed):
    per = 150 if tier == "quick" else 18000
    sh = [{"kind": "prog", "seed": f"C09:{seed}:{k}", "count": per} for k in range(12)]
    sh += [{"kind": "ut", "seed": f"C09:{seed}:u{k}", "count": per * 2} for k in range(3)]
    sh.append({"kind": "builtins"})
    return sh


class Tagged(np.ndarray):
    """User-type value: an ndarray that remembers its user type."""
    tag = None

    def __array_finalize__(self, obj):
        if obj is not None:
            self.tag = getattr(obj, "tag", None)

    def __array_wrap__(self, out, context=None, return_scalar=False):
        if return_scalar or np.ndim(out) == 0:
            return out[()] if hasattr(out, "__getitem__") else out
        return super().__array_wrap__(out, context, return_scalar)


def tagged(vals, tag):
    a = np.asarray(vals)
    a = a.astype(complex if np.iscomplexobj(a) else float).view(Tagged)
    a.tag = tag
    return a


def conforms(v, kind):
    """R_kind.  Returns None if v conforms to kind, else a short reason."""
    from dagrt.data import Array, Boolean, Integer, Scalar, UserType
    if kind is None:
        return "variable has no kind"
    isbool = isinstance(v, (bool, np.bool_))
    if isinstance(kind, Boolean):
        return None if isbool else f"{type(v).__name__} value under Boolean"
    if isbool:
        return f"boolean value under {kind_name(kind)}"
    if isinstance(v, Tagged) and v.tag is not None:
        if isinstance(kind, UserType) and kind.identifier == v.tag:
            return None
        return f"user-type({v.tag}) value under {kind_name(kind)}"
    if isinstance(kind, UserType):
        return f"{type(v).__name__} value under {kind_name(kind)}"
    if isinstance(v, np.ndarray) and v.ndim >= 1:
        if not isinstance(kind, Array):
            return f"array value under {kind_name(kind)}"
        if np.iscomplexobj(v) and kind.is_real_valued:
            return "complex array under Array(real)"
        if v.ndim != 1:
            return f"{v.ndim}-d array under Array"
        return None
    if isinstance(v, np.ndarray):
        v = v[()]
    if isinstance(kind, Array):
        return f"scalar {type(v).__name__} value under {kind_name(kind)}"
    if isinstance(v, (int, np.integer)):
        return None if isinstance(kind, (Integer, Scalar)) else f"int under {kind_name(kind)}"
    if isinstance(v, (float, np.floating)):
        return None if isinstance(kind, Scalar) else f"float under {kind_name(kind)}"
    if isinstance(v, (complex, np.complexfloating)):
        if isinstance(kind, Scalar) and not kind.is_real_valued:
            return None
        return f"complex value under {kind_name(kind)}"
    return f"{type(v).__name__} value under {kind_name(kind)}"


def kind_name(k):
    from vf.props.c14 import kname
    return kname(k)


def registry_for(script, extra=None):
    from dagrt.data import Array, Scalar
    from dagrt.function_registry import base_function_registry, register_function
    freg = base_function_registry
    for name, spec in script.get("funcs", {}).items():
        rk = Array(True) if spec["kind"] == "vec" else Scalar(True)
        n = spec.get("nres", 1)
        freg = register_function(freg, name, tuple(spec["args"]) + ("tag",), default_dict={"tag": 0},
                                 result_names=tuple(f"r{i}" for i in range(n)), result_kinds=(rk,) * n)
    return freg


def lookup_kind(tbl, phase, name):
    if name in tbl.global_table:
        return tbl.global_table[name], True
    t = tbl.per_phase_table.get(phase, {})
    if name in t:
        return t[name], True
    return None, False


def shape_of_rhs(stmt):
    """Which operator family produced the value (mechanism key)."""
    from dagrt.language import Assign, AssignFunctionCall
    import pymbolic.primitives as p
    if isinstance(stmt, AssignFunctionCall):
        return "call-" + stmt.function_id.replace("<", "").replace(">", "-")
    if isinstance(stmt, Assign):
        e = stmt.rhs
        for cls, nm in ((p.Power, "power"), (p.Quotient, "quotient"), (p.Call, "call"), (p.CallWithKwargs, "call"),
                        (p.If, "conditional"), (p.Min, "min"), (p.Max, "max"), (p.Comparison, "comparison"),
                        (p.Sum, "sum"), (p.Product, "product"), (p.Subscript, "subscript"), (p.Variable, "copy")):
            if isinstance(e, cls):
                if nm == "call":
                    return "call-" + e.function.name.replace("<", "").replace(">", "-")
                return nm
        return "constant"
    return type(stmt).__name__


def check_dag(dag, script, funcs, freg, rec, wit, starts):
    from dagrt.data import infer_kinds
    buf = io.StringIO()
    try:
        with redirect_stdout(buf):
            tbl = infer_kinds(dag, freg)
    except Exception as ex:
        rec.count("inference_failed_" + type(ex).__name__)
        return None
    rec.count("inference_succeeded")
    stored_names = set()
    seen = {}
    for name, pstate in starts:
        # every phase from up to 3 of the states in which it starts (values change kind-relevantly
        # across steps, e.g. a persistent variable that turns complex in the second step)
        if seen.get(name, 0) >= 3:
            continue
        seen[name] = seen.get(name, 0) + 1
        drv = backends.StepDriver(dag, script, funcs, phase_name=name, persist_override=pstate)
        order = backends.program_order(drv.phase)
        # (i) every assigned variable has a kind
        for stmt in drv.phase.statements:
            for v in stmt.get_written_variables():
                k, found = lookup_kind(tbl, name, v)
                if not found or k is None:
                    rec.violation(f"assigned-variable-without-kind-{shape_of_rhs(stmt)}",
                                  f"inference succeeded but {v!r} (assigned by [{stmt.id}] {stmt}) has "
                                  f"{'kind None' if found else 'no entry'}", wit)
                    return False
        out = drv.run(order)
        if out["crash"] is not None:
            rec.undef("interpreter-" + out["crash"][0])
            continue
        # (ii) re-run statement by statement to look at values right after each write
        drv = backends.StepDriver(dag, script, funcs, phase_name=name, persist_override=pstate)
        for sid in order:
            stmt = drv.id_to_stmt[sid]
            o = drv.run([sid])
            if o["outcome"] not in ("completed",):
                break
            r, w = o["per_stmt"][sid]
            counters = {i for i, _, _ in getattr(stmt, "loops", [])}
            for v in w - counters:
                if v not in o["store"]:
                    continue
                k, _ = lookup_kind(tbl, name, v)
                rec.count("stored_values_checked")
                stored_names.add(v)
                why = conforms(o["store"][v], k)
                if why:
                    rec.violation(f"value-kind-mismatch-{shape_of_rhs(stmt)}",
                                  f"[{sid}] {stmt} stored {o['store'][v]!r} into {v!r}, whose inferred kind is "
                                  f"{kind_name(k)}: {why}", wit)
                    return False
    return len(stored_names)


def add_complex(script, rng):
    """Sprinkle complex-valued assignments over a script (own name pool, only
    used in arithmetic and yields, never in comparisons)."""
    for ph in script["phases"]:
        body = ph["body"]
        n = rng.choice([0, 1, 2])
        have = []
        for _ in range(n):
            pos = rng.randint(0, len(body))
            src = rng.choice([["var", "<dt>"], ["var", "<t>"], ["num", 2.5]])
            if have and rng.random() < 0.5:
                rhs = ["+", ["var", rng.choice(have)], ["*", ["cnum", 0.0, 2.0], src]]
            else:
                rhs = rng.choice([["*", ["cnum", 0.0, 1.0], src], ["+", src, ["cnum", 1.0, -1.0]],
                                  ["/", ["cnum", 0.0, 1.0], ["num", 2]], ["**", ["cnum", 0.0, 1.0], ["num", 2]],
                                  # complex-typed constants whose imaginary part is exactly zero
                                  # (coefficients taken from numpy.roots / eigvals come like this)
                                  ["**", ["cnum", -4.0, 0.0], ["num", 0.5]], ["*", ["cnum", 2.0, 0.0], src],
                                  ["+", ["cnum", -1.5, 0.0], src], ["**", ["cnum", -2.0, 0.0], src],
                                  ["/", src, ["cnum", 4.0, 0.0]]])
            name = rng.choice(["zc", "wc", "<state>zc"])
            # only at top level (unconditionally defined for later uses)
            if all(op[0] != "if" or True for op in body[:pos]):
                body.insert(pos, ["assign", name, None, rhs, [], 0])
                have = [name]
        if rng.random() < 0.25:
            # the quotient of two integers (two loop counters, or two lengths) stored into a scalar: not an integer
            pos = rng.randint(0, len(body))
            tgt = rng.choice(["qi", "<p>qi", "<state>qi"])
            if rng.random() < 0.6:
                body.insert(pos, ["assign", tgt, None, ["/", ["var", "i"], ["var", "j"]],
                                  [["i", ["num", 0], ["num", 3]], ["j", ["num", 1], ["num", 3]]], 0])
            else:
                body[pos:pos] = [["call", ["qa"], "<builtin>array", [["num", 2]], {}, 0],
                                 ["assign", "qa", ["var", "i"], ["var", "<dt>"], [["i", ["num", 0], ["num", 2]]], 0],
                                 ["call", ["qb"], "<builtin>array", [["num", 5]], {}, 0],
                                 ["assign", "qb", ["var", "i"], ["var", "<dt>"], [["i", ["num", 0], ["num", 5]]], 0],
                                 ["assign", tgt, None, ["/", ["call", "<builtin>len", [["var", "qa"]], {}],
                                                        ["call", "<builtin>len", [["var", "qb"]], {}]], [], 0]]
        if rng.random() < 0.3:
            # a complex SCALAR combined with a real ARRAY, in both operand orders and through every operator
            pos = rng.randint(0, len(body))
            c = rng.choice([["cnum", 0.0, 1.0], ["*", ["cnum", 0.0, 2.0], ["var", "<dt>"]], ["cnum", 1.0, -1.0]])
            a = ["var", "cav"]
            e = rng.choice([["*", c, a], ["*", a, c], ["+", c, a], ["+", a, c], ["/", c, ["+", a, ["num", 2]]],
                            ["/", a, c], ["-", c, a], ["*", ["num", 2], c, a],
                            ["**", a, ["cnum", 0.0, 0.5]], ["**", a, c], ["**", ["+", a, ["num", 1]], ["cnum", 1.0, 1.0]],
                            ["**", ["cnum", 0.0, 1.0], a]])
            new = [["call", ["cav"], "<builtin>array", [["num", 2]], {}, 0],
                   ["assign", "cav", ["var", "i"], ["+", ["*", ["num", 0.5], ["var", "i"]], ["num", 1]],
                    [["i", ["num", 0], ["num", 2]]], 0],
                   ["assign", "cprod", None, e, [], 0],
                   ["assign", "celem", None, ["sub", ["var", "cprod"], ["num", 1]], [], 0]]
            body[pos:pos] = new
    return script


def add_anchor_phase(script):
    """Kind inference only learns the kind of a persistent variable from a whole-variable
    assignment.  A never-executed phase assigns every persistent variable once."""
    names = set()
    for ph in script["phases"]:
        prog.all_names(ph["body"], names)
    body = []
    for n in sorted(names):
        if not (n.startswith("<state>") or n.startswith("<p>")):
            continue
        isarr = any(op_is_elem_write(ph["body"], n) for ph in script["phases"]) or \
            isinstance(script["state"].get(n[7:] if n.startswith("<state>") else None), list)
        if n.endswith("zc"):
            body.append(["assign", n, None, ["cnum", 0.0, 1.0], [], 0])
        elif isarr:
            body.append(["call", [n], "<builtin>array", [["num", 2]], {}, 0])
        else:
            body.append(["assign", n, None, ["num", 1.5], [], 0])
    script["phases"].append({"name": "kinds_anchor", "next": "kinds_anchor", "body": body})
    return script


def op_is_elem_write(ops, name):
    for op in ops:
        if op[0] == "assign" and op[1] == name and op[2] is not None:
            return True
        if op[0] == "call" and name in op[1] and op[2] == "<builtin>array":
            return True
        if op[0] == "if":
            if op_is_elem_write(op[2], name) or op_is_elem_write(op[3], name) or (
                    op[4] is not None and op_is_elem_write(op[4], name)):
                return True
    return False


def gen_chain(rng):
    """Loop-carried widening: a persistent variable starts real and is fed back complex through a chain of
    temporaries, so that inference needs several sweeps (script form, two phases)."""
    k = rng.randint(2, 4)
    body = []
    prev = "<p>x"
    names = [f"c{i}" for i in range(k)]
    for i, n in enumerate(names):
        e = rng.choice([["+", ["var", prev], ["num", 1.5]], ["*", ["num", 2], ["var", prev]],
                        ["-", ["var", prev], ["var", "<dt>"]], ["/", ["var", prev], ["num", 2]],
                        ["**", ["var", prev], ["num", 2]]])
        body.append(["assign", n, None, e, [], 0])
        prev = n
    wid = rng.choice([["*", ["var", prev], ["cnum", 0.0, 1.0]], ["+", ["var", prev], ["cnum", 0.0, 2.0]]])
    body.append(["assign", "<p>x", None, wid, [], 0])
    extra = [["assign", "<state>s", None, ["+", ["var", "<state>s"], ["var", "<dt>"]], [], 0],
             ["assign", "q", None, ["*", ["var", "<dt>"], ["num", 3]], [], 0]]
    for op in extra:
        body.insert(rng.randint(0, len(body)), op)
    init = [["assign", "<p>x", None, ["num", rng.choice([1.0, 0.5, 2])], [], 0],
            ["assign", "<state>s", None, ["num", 1.5], [], 0]]
    return {"phases": [{"name": "init", "next": "step", "body": init},
                       {"name": "step", "next": "step", "body": body}],
            "initial": "init", "state": {"s": 1.5}, "t0": 0.0, "dt0": 0.5, "funcs": {},
            "run": {"max_steps": 4}, "event_cap": 40}


def check_program(script, rec):
    wit = {"script": script}
    try:
        with case_alarm(40):
            try:
                rs, ref = backends.rseq_result(script)
            except Undefined as u:
                rec.undef(str(u))
                return None
            dag = prog.build(script)
            funcs = prog.python_functions(script)
            freg = registry_for(script)
            return check_dag(dag, script, funcs, freg, rec, wit, rs.step_starts)
    except CaseTimeout:
        rec.timeout()
        return None


# {{{ user-type programs

def gen_ut(rng):
    """Executable program over tagged user vectors, as a JSON op list for one phase.
    ops: ["assign", lhs, sexpr] | ["call", [lhs], fname, [args], {kw}]"""
    ops = []
    uts = ["<state>y"]
    nums = ["<t>", "<dt>"]
    cnt = itertools.count()
    # the kind of <state>y is only known through a value of known user type
    ops.append(["call", ["kfirst"], "<func>rhs", [["var", "<t>"]], {"y": ["var", "<state>y"]}])
    two = rng.random() < 0.4
    if two:
        # a second component of ANOTHER user type and right-hand sides that take both components:
        # ff(t, y, w) returns a 'vt' value, fs(t, y, w) a 'wt' value
        ops.append(["two-types"])
        ops.append(["call", ["<state>w"], "<func>fs", [["var", "<t>"]], {"y": ["var", "<state>y"], "w": ["var", "<state>w"]}])
    for _ in range(rng.randint(3, 10)):
        r = rng.random()
        i = next(cnt)
        if two and r < 0.12:
            v = f"k{i}"
            ops.append(["call", [v], "<func>ff", [["var", rng.choice(nums)]],
                        {"y": ["var", rng.choice(uts)], "w": ["var", "<state>w"]}])
            uts.append(v)
        elif r < 0.2:
            v = f"k{i}"
            ops.append(["call", [v], "<func>rhs", [["var", rng.choice(nums)]], {"y": ["var", rng.choice(uts)]}])
            uts.append(v)
        elif r < 0.45:
            v = f"u{i}"
            a, b = rng.choice(uts), rng.choice(uts)
            e = rng.choice([["+", ["var", a], ["*", ["var", rng.choice(nums)], ["var", b]]],
                            ["-", ["var", a], ["var", b]], ["*", ["num", 0.5], ["var", a]],
                            ["/", ["var", a], ["num", 2]], ["neg", ["var", a]]])
            ops.append(["assign", v, e])
            uts.append(v)
        elif r < 0.6:
            v = f"n{i}"
            f = rng.choice(["<builtin>norm_2", "<builtin>norm_1", "<builtin>norm_inf", "<builtin>len"])
            ops.append(["assign", v, ["*", ["num", 2], ["call", f, [["var", rng.choice(uts)]], {}]]])
            nums.append(v)
        elif r < 0.68:
            v = f"d{i}"
            ops.append(["assign", v, ["call", "<builtin>dot_product", [["var", rng.choice(uts)], ["var", rng.choice(uts)]], {}]])
        elif r < 0.76:
            v = f"a{i}"
            ops.append(["call", [v], "<builtin>elementwise_abs", [["var", rng.choice(uts)]], {}])
            uts.append(v)
        elif r < 0.84:
            v = f"b{i}"
            ops.append(["assign", v, ["call", "<builtin>isnan", [["var", rng.choice(uts + nums)]], {}]])
        elif r < 0.92:
            ops.append(["assign", "<state>y", ["+", ["var", rng.choice(uts)], ["*", ["num", 0.25], ["var", rng.choice(uts)]]]])
        else:
            v = f"p{i}"
            ops.append(["assign", v, ["**", ["var", rng.choice(nums)], ["num", 2]]])
            nums.append(v)
    ops.append(["assign", "<state>y", ["+", ["var", "<state>y"], ["*", ["var", "<dt>"], ["var", "kfirst"]]]])
    if not two and rng.random() < 0.3:
        # the user's state is a matrix (2x2 or 3x2) in this run: a user type says nothing about the shape either
        ops.insert(0, ["matrix-state", rng.choice([[2, 2], [3, 2]])])
    if rng.random() < 0.4:
        # the user's state vector holds complex numbers in this run (a user type says nothing about that)
        ops.insert(0, ["complex-state"])
    return ops


def check_ut(ops, rec):
    from dagrt.function_registry import base_function_registry, register_ode_rhs
    from dagrt.language import CodeBuilder, DAGCode
    from vf.sexpr import to_pym
    import pymbolic.primitives as p
    wit = {"ut_ops": ops}
    cstate = bool(ops) and ops[0] == ["complex-state"]
    if cstate:
        ops = ops[1:]
        rec.count("usertype_programs_with_complex_state")
    mshape = None
    if ops and ops[0][0] == "matrix-state":
        mshape = ops[0][1]
        ops = ops[1:]
        rec.count("usertype_programs_with_matrix_state")
    two = ["two-types"] in ops
    if two:
        ops = [op for op in ops if op != ["two-types"]]
        rec.count("usertype_programs_with_two_user_types")
    with CodeBuilder("main") as cb:
        for op in ops:
            if op[0] == "assign":
                cb.assign(p.Variable(op[1]), to_pym(op[2]))
            else:
                cb.assign(tuple(p.Variable(n) for n in op[1]), to_pym(["call", op[2], op[3], op[4]]))
    dag = DAGCode.from_phases_list([cb.as_execution_phase("main")], "main")
    freg = register_ode_rhs(base_function_registry, "vt", identifier="<func>rhs", input_names=("y",))

    freg = register_ode_rhs(freg, "vt", identifier="<func>ff", input_type_ids=("vt", "wt"), input_names=("y", "w"))
    freg = register_ode_rhs(freg, "wt", identifier="<func>fs", input_type_ids=("vt", "wt"), input_names=("y", "w"))

    def rhs(t, y):
        return tagged(-2.0 * np.asarray(y) + t, "vt")

    def ff(t, y, w):
        return tagged(-1.0 * np.asarray(y) + t + np.sum(np.asarray(w)), "vt")

    def fs(t, y, w):
        return tagged(0.5 * np.asarray(w) + t + np.asarray(y)[0], "wt")
    script = {"t0": 0.5, "dt0": 0.25, "state": {}, "initial": "main"}
    y0 = [1.0 + 0.5j, -2.0, 0.5j] if cstate else [1.0, -2.0, 0.5]
    if mshape is not None:
        y0 = (np.arange(mshape[0] * mshape[1]).reshape(mshape) * (0.5 + (0.25j if cstate else 0)) - 1.0).tolist()
    st0 = {"<t>": 0.5, "<dt>": 0.25, "<state>y": tagged(y0, "vt")}
    if two:
        st0["<state>w"] = tagged([0.5 + 1j, 1.0] if cstate else [0.5, 1.0], "wt")
    start = [("main", st0)]
    rec.count("usertype_programs")
    try:
        with case_alarm(30):
            return check_dag(dag, script, {"<func>rhs": rhs, "<func>ff": ff, "<func>fs": fs}, freg, rec, wit, start)
    except CaseTimeout:
        rec.timeout()
        return None

# }}}


# {{{ built-ins in isolation

def arg_grid():
    from dagrt.data import Array, Integer, Scalar, UserType
    return [
        ("real-scalar", 1.5, Scalar(True)), ("negative-real", -2.0, Scalar(True)), ("int", 3, Integer()),
        ("complex-scalar", 1 + 2j, Scalar(False)), ("nan", float("nan"), Scalar(True)),
        ("real-array-1", np.array([2.0]), Array(True)), ("real-array-3", np.array([1.0, -2.0, 0.5]), Array(True)),
        ("real-array-4", np.array([1.0, 2.0, 3.0, 4.0]), Array(True)),
        ("complex-array-3", np.array([1j, 2.0, -1 + 1j]), Array(False)),
        ("nan-array", np.array([1.0, float("nan")]), Array(True)),
        ("user-vector", tagged([1.0, -2.0, 0.5], "vt"), UserType("vt")),
        ("complex-user-vector", tagged([1j, 2.0, -1 + 1j], "vt"), UserType("vt")),
        ("user-matrix-2x2", tagged([[1.0, -2.0], [0.5, 3.0]], "vt"), UserType("vt")),
        ("user-matrix-3x2", tagged([[1.0, -2.0], [0.5, 3.0], [0.25, 4.0]], "vt"), UserType("vt")),
    ]


def run_builtins(rec):
    from dagrt.builtins_python import builtins as impls
    from dagrt.function_registry import base_function_registry as freg
    grid = arg_grid()
    one = ["<builtin>len", "<builtin>isnan", "<builtin>norm_1", "<builtin>norm_2", "<builtin>norm_inf",
           "<builtin>elementwise_abs"]
    cases = []
    for f in one:
        for g in grid:
            cases.append((f, [g]))
    for a, b in itertools.product(grid, grid):
        cases.append(("<builtin>dot_product", [a, b]))
    for g in grid[:3]:
        cases.append(("<builtin>array", [g]))
    sq = [g for g in grid if g[0] in ("real-array-4", "real-array-1")]
    for a in sq:
        cols = ("cols", 2 if a[0] == "real-array-4" else 1, grid[0][2])
        cases.append(("<builtin>transpose", [a, cols]))
        cases.append(("<builtin>matmul", [a, a, cols, cols]))
        cases.append(("<builtin>svd", [a, cols]))
    from dagrt.data import Array
    # matrix built-ins over every real/complex combination of their array arguments
    mats = [("real-matrix-2x2", np.array([2.0, 1.0, 1.0, 3.0]), Array(True)),
            ("complex-matrix-2x2", np.array([2.0, 1j, 1.0, 3.0 - 1j]), Array(False))]
    rhss = [("real-rhs-2", np.array([1.0, 2.0]), Array(True)), ("complex-rhs-2", np.array([1.0, 2j]), Array(False)),
            ("real-rhs-2x2", np.array([1.0, 2.0, 0.5, -1.0]), Array(True)),
            ("complex-rhs-2x2", np.array([1.0, 2.0, 0.5j, -1.0]), Array(False))]
    two, onec = ("cols", 2, grid[0][2]), ("cols", 1, grid[0][2])
    for m in mats:
        for b in rhss:
            cases.append(("<builtin>linear_solve", [m, b, two, two if b[0].endswith("2x2") else onec]))
        for m2 in mats:
            cases.append(("<builtin>matmul", [m, m2, two, two]))
        if m[0].startswith("complex"):
            cases.append(("<builtin>transpose", [m, two]))
            cases.append(("<builtin>svd", [m, two]))
    for fname, args in cases:
        func = freg[fname]
        kinds = {i: a[2] for i, a in enumerate(args)}
        try:
            want = func.get_result_kinds(kinds, check=True)
        except Exception:
            rec.count("builtin_argument_kinds_rejected")
            continue
        # the same call written with keywords, in reverse order (all keywords / first argument positional): the
        # result kinds may not depend on how the arguments are written
        names = list(func.arg_names)[:len(args)]
        for npos in (0, 1):
            kw = {i: kinds[i] for i in range(npos)}
            for i in reversed(range(npos, len(args))):
                kw[names[i]] = kinds[i]
            if len(args) - npos < 2:
                continue
            rec.count("builtin_keyword_presentations_checked")
            try:
                got = func.get_result_kinds(kw, check=True)
            except Exception as ex:
                got = f"{type(ex).__name__}: {ex}"
            if got != want:
                rec.violation(f"builtin-result-kind-depends-on-argument-spelling-{fname.replace('<builtin>', '')}",
                              f"{fname}: positional arguments give {[kind_name(k) for k in want]}, "
                              f"{list(kw)} gives {got if isinstance(got, str) else [kind_name(k) for k in got]}",
                              {"builtin": fname, "args": [a[0] for a in args], "keywords": [str(k) for k in kw]})
                break
        try:
            with np.errstate(all="ignore"):
                res = impls[fname](*[backends.copyval(a[1]) for a in args])
        except Exception as ex:
            rec.count("builtin_implementation_raises_" + type(ex).__name__)
            continue
        if len(want) == 1:
            res = (res,)
        rec.case([fname] + [a[0] for a in args], by_construction=True)
        for k, v in zip(want, res):
            rec.count("builtin_results_checked")
            why = conforms(v, k)
            if why:
                rec.violation(f"builtin-result-kind-mismatch-{fname.replace('<builtin>', '')}-of-"
                              + "-".join(a[0].rstrip("-0123456789") for a in args),
                              f"{fname}({', '.join(a[0] for a in args)}) returned {v!r}; registry says "
                              f"{kind_name(k)}: {why}", {"builtin": fname, "args": [a[0] for a in args]})

# }}}


def run_shard(shard, rec):
    if shard["kind"] == "builtins":
        run_builtins(rec)
        return
    rng = random.Random(shard["seed"])
    for _ in range(shard["count"]):
        if shard["kind"] == "prog" and rng.random() < 0.15:
            script = gen_chain(rng)
            n = check_program(script, rec)
            rec.count("widening_chain_programs")
            rec.case(script, nontrivial=bool(n) and n >= 3)
        elif shard["kind"] == "prog":
            # (kind inference has no rule for conditional expressions: mostly left out)
            script = add_complex(prog.Gen(rng, profile="py", ifexpr=rng.random() < 0.15).script(), rng)
            if rng.random() < 0.75:
                script = add_anchor_phase(script)
            n = check_program(script, rec)
            rec.case(script, nontrivial=bool(n) and n >= 3)
        else:
            ops = gen_ut(rng)
            n = check_ut(ops, rec)
            rec.case(ops, nontrivial=bool(n) and n >= 3)


def replay(witness, rec):
    if "script" in witness:
        check_program(witness["script"], rec)
    elif "ut_ops" in witness:
        check_ut(witness["ut_ops"], rec)
    else:
        run_builtins(rec)
    rec.case(witness)
