"""C20 — line wrapping of generated code changes layout only.

Monitor: icontract postcondition (vf.wrapmon.judge) on the wrap_line that each
generator really calls; the driver feeds it generated token sequences and also
every line the two real generators emit for a set of programs.  Python lines
are additionally re-parsed (ast.dump equality); Fortran statements are compiled
and run wrapped and unwrapped."""
import ast
import random

from vf import fort
from vf.runner import CaseTimeout, case_alarm
from vf.wrapmon import WrapMonitor, lex

ID = "C20"
LEVEL = "exploration"
RULE = ("code lines built from token sequences (identifiers, operators, numbers, standalone quoted strings with "
        "single and multiple inner spaces, tokens longer than the width, realistic glued forms such as 'f(a,' ) "
        "x indentation levels 0-8 x widths 12-100 x both targets' pad functions; Python lines are valid "
        "statements that are re-parsed wrapped/unwrapped inside `if 1:` nests of the right depth; Fortran "
        "statements are compiled and executed wrapped/unwrapped in batches; plus every line emitted by the real "
        "Python and Fortran generators for sample programs incl. long loop and guard headers (judged by the same "
        "contract). A quote glued to a "
        "preceding character (f(\"a  b\")) is not a token sequence for the wrapper's lexer and lives in a "
        "separate, non-deciding class. distinct = (target, line, level, width); non-trivial = >=3 tokens and "
        "the result has >=2 lines")
ASSUMPTIONS = [
    "token = a blank-separated word; a quote at the start of a word opens a string that runs to the matching "
    "quote (Python lines: a backslash inside the string escapes the next character; Fortran lines: no escapes)",
    "a line holding a single token longer than the width cannot fit and is exempt (as the property says)",
]
ANCHORS = ["dagrt.codegen.utils:wrap_line_base"]
MIN_NONTRIVIAL = {"quick": 10000, "thorough": 840000}
REQUIRED_COUNTERS = {
    "quick": ["wrap_contract_evaluations_python", "wrap_contract_evaluations_fortran",
              "python_ast_compared", "generator_lines_python", "generator_lines_fortran",
              "fortran_statements_executed", "emitted_modules_scanned_fortran"],
    "thorough": ["wrap_contract_evaluations_python", "wrap_contract_evaluations_fortran",
                 "python_ast_compared", "generator_lines_python", "generator_lines_fortran",
                 "fortran_statements_executed", "emitted_modules_scanned_fortran"]}
SHARD_TIMEOUT = {"quick": 900, "thorough": 3000}


def plan(tier, seed):
    per = 1500 if tier == "quick" else 160000
    sh = [{"kind": "tokens", "seed": f"C20:{seed}:{k}", "count": per} for k in range(14)]
    for k in range(2 if tier == "quick" else 8):
        sh.append({"kind": "generators", "seed": f"C20:{seed}:gen{k}", "nprog": 40 if tier == "quick" else 1500})
    nf = 1 if tier == "quick" else 12
    for k in range(nf):
        sh.append({"kind": "fortran", "seed": f"C20:{seed}:f{k}", "count": 120 if tier == "quick" else 1200})
    return sh


IDENTS = ["x", "y1", "self.global_state_y", "local_tmp_0", "dagrt_state%dagrt_state_y", "a", "bb",
          "averyveryverylongidentifier_that_goes_on_and_on_0123456789", "f", "numpy"]
OPS = ["+", "-", "*", "/", "**"]
STRS = ["\"can't be reduced any further\"", "'value of \"dt\" is too small'", "'a b'", "'two  spaces'", "'failed to allocate  x'", "''", "\"dq string\"", "'x'",
        "'a very long string literal that is certainly wider than a narrow line width allows'",
        # characters that mean something to the targets OUTSIDE a string: comment signs, continuation markers
        "'step rejected! retrying with smaller dt'", "'a & b'", "\"50% done # not a comment\"", "'back\\slash'",
        "'semi; colon'", "'!'", "'&'"]
# Python only: what repr() gives for a text holding both kinds of quote, or a backslash
PY_STRS = ["'can\\'t find \"dt_min\"'", "'it\\'s'", "\"say \\\"no\\\" twice\"", "'a\\\\'", "'tab\\there  and \\' there'",
           "'ends with a quote\\''", "'\\'\\''"]


def py_expr_tokens(rng, n):
    """Token list of a valid Python/Fortran arithmetic expression."""
    toks = []
    depth = 0
    for i in range(n):
        if rng.random() < 0.2:
            toks.append("(")
            depth += 1
        r = rng.random()
        if r < 0.6:
            toks.append(rng.choice(["a", "bb", "c1", "averyveryverylongidentifier_that_goes_on_and_on_0123456789"]))
        elif r < 0.85:
            toks.append(rng.choice(["1", "2.5", "100", "3.25"]))
        else:
            toks += ["f", "(", "a", ",", "bb", ")"]
        while depth and rng.random() < 0.3:
            toks.append(")")
            depth -= 1
        if i < n - 1:
            toks.append(rng.choice(OPS[:4]))
    toks += [")"] * depth
    return toks


def glue(rng, toks):
    """Join tokens with single spaces, sometimes gluing brackets/commas the way
    real generated code does ('f(a,', 'b)')."""
    out = []
    for t in toks:
        if out and rng.random() < 0.35 and (t in (")", ",") or out[-1].endswith("(")):
            if not (out[-1][-1] in "'\"" or t[0] in "'\""):
                out[-1] += t
                continue
        if out and t == "(" and rng.random() < 0.5 and out[-1][-1].isalnum():
            out[-1] += t
            continue
        out.append(t)
    return " ".join(out)


def gen_python_line(rng):
    kind = rng.random()
    n = rng.randint(1, 14)
    if kind < 0.55:
        toks = ["x", "="] + py_expr_tokens(rng, n)
    elif kind < 0.75:
        toks = ["x", "=", "g", "("]
        for i in range(rng.randint(1, 5)):
            if i:
                toks.append(",")
            toks.append(rng.choice(STRS + PY_STRS) if rng.random() < 0.6 else rng.choice(["a", "bb"]))
        toks.append(")")
    elif kind < 0.9:
        toks = ["x", "="] + py_expr_tokens(rng, n) + ["if"] + ["a", "<", "bb"] + ["else"] + py_expr_tokens(rng, 2)
    else:
        toks = ["raise", "E", "(", rng.choice(STRS), ",", rng.choice(STRS + PY_STRS), ")"]
    return glue(rng, toks)


def call_wrapper(wrap, line, rec, target, **kw):
    """The real wrapper on a line; a line that IS a token sequence (for the monitor's own lexer) and that the
    wrapper refuses has no wrapped form at all."""
    try:
        return wrap(line, **kw)
    except ValueError as ex:
        try:
            lex(line, "\\" if target == "python" else "&")
        except ValueError:
            rec.count("unbalanced_lines_refused")
            # a refused line must leave nothing behind: the lines that follow it (an empty one, one that starts
            # with a blank) are judged by the same contract
            for follow in ("", "  call foo(a, b)", "\tx = 1"):
                try:
                    wrap(follow, **kw)
                    rec.count("lines_wrapped_right_after_a_refused_line")
                except ValueError:
                    pass
            return None
        rec.violation("wrapper-refuses-a-token-sequence", f"[{target}] {type(ex).__name__}: {ex} for {line!r}",
                      dict(kw, line=line, target=target))
        return None


def check_python_ast(line, level, width, rec, P_wrap):
    res = call_wrapper(P_wrap, line, rec, "python", level=level, width=width)
    if res is None:
        return []
    pre = ""
    for i in range(level):
        pre += "    " * i + "if 1:\n"
    ind = "    " * level
    wrapped_src = pre + "\n".join(ind + ln for ln in res) + "\n"
    plain_src = pre + ind + line + "\n"
    try:
        want = ast.dump(ast.parse(plain_src))
    except SyntaxError:
        rec.count("python_input_not_a_statement")
        return res
    rec.count("python_ast_compared")
    try:
        got = ast.dump(ast.parse(wrapped_src))
    except SyntaxError as ex:
        rec.violation("python-wrapped-line-syntax-error",
                      f"wrapped form is not valid Python ({ex}): {res}",
                      {"line": line, "level": level, "width": width, "target": "python"})
        return res
    if got != want:
        rec.violation("python-ast-changed", f"wrapped form parses differently: {res}",
                      {"line": line, "level": level, "width": width, "target": "python"})
    return res


def run_tokens(shard, rec):
    rng = random.Random(shard["seed"])
    mon = WrapMonitor(rec)
    P_wrap, F_wrap = mon.attach()
    try:
        for i in range(shard["count"]):
            level = rng.choice([0, 0, 1, 1, 2, 3, 4, 6, 8])
            width = rng.choice([12, 14, 16, 20, 24, 30, 40, 50, 60, 72, 80, 80, 100])
            if i % 40 == 17:
                # a line the wrapper has to refuse (a quote that is never closed), for either target
                bad = rng.choice(["write(*,*) 'oops", 'x = y ! see "Notes', "print('no closing quote"])
                if rng.random() < 0.5:
                    call_wrapper(F_wrap, bad, rec, "fortran", level=level, width=width, indentation=" ")
                else:
                    call_wrapper(P_wrap, bad, rec, "python", level=level, width=width)
                mon.flush(rec)
            cls = i % 10
            if cls < 5:
                line = gen_python_line(rng)
                res = check_python_ast(line, level, width, rec, P_wrap)
                target = "python"
            elif cls < 9:
                # generic token soup for either target
                n = rng.randint(0, 25)
                toks = []
                for _ in range(n):
                    r = rng.random()
                    if r < 0.45:
                        toks.append(rng.choice(IDENTS))
                    elif r < 0.7:
                        toks.append(rng.choice(OPS + ["=", ",", "(", ")", "==", ".and.", "%"]))
                    elif r < 0.85:
                        toks.append(rng.choice(STRS))
                    else:
                        toks.append(rng.choice(["1.5d0", "1e-12", "42", "(-2.0d0)"]))
                line = (" " * rng.choice([0, 0, 1, 3])).join([""]) + (" " * rng.choice([1, 1, 2])).join(toks)
                if rng.random() < 0.5:
                    indent = rng.choice([" ", "    "])
                    if rng.random() < 0.12:
                        # preprocessor lines (module preambles and call templates may carry them; the generator
                        # moves their '#' to column one afterwards): '#' is an ordinary character for the wrapper
                        line = rng.choice(['#include "dagrt_config.h"', "#ifdef USE_FAST_PATH", "#endif",
                                           "#define NSTAGES 10", "x = a##b + 1", "#if defined(A) && defined(B)"]) \
                            + ("  " + line if rng.random() < 0.3 and "'" not in line and '"' not in line else "")
                        rec.count("fortran_preprocessor_lines")
                    res = call_wrapper(F_wrap, line, rec, "fortran", level=level, width=width, indentation=indent)
                    target = "fortran"
                else:
                    res = call_wrapper(P_wrap, line, rec, "python", level=level, width=width)
                    target = "python"
                res = res or []
            else:
                # non-deciding class: quote glued to a preceding character
                line = rng.choice(["x = f(\"a  b\", c)", "call g('two  spaces', 1)",
                                   "y = name='fin al' + 1"]) + " + a" * rng.randint(0, 8)
                saved = list(mon.failures)
                res = P_wrap(line, level=level, width=width)
                if len(mon.failures) > len(saved):
                    rec.count("nondeciding_glued_quote_failures")
                    del mon.failures[len(saved):]
                rec.count("nondeciding_glued_quote_lines")
                continue
            mon.flush(rec)
            try:
                nt = len(lex(line, "\\" if target == "python" else "&")) >= 3 and len(res) >= 2
            except ValueError:
                nt = False
            rec.case([target, line, level, width], nontrivial=nt)
    finally:
        mon.detach()


# {{{ every line the real generators emit

def sample_programs():
    from dagrt.language import CodeBuilder, DAGCode
    progs = []
    with CodeBuilder("primary") as cb:
        cb("n", "4")
        cb("nodes", "`<builtin>array`(n)")
        cb("vdm", "`<builtin>array`(n*n)")
        cb("identity", "`<builtin>array`(n*n)")
        cb("nodes[i]", "i/n", loops=[("i", 0, "n")])
        cb("identity[i]", "0", loops=[("i", 0, "n*n")])
        cb("identity[i*n + i]", "1", loops=[("i", 0, "n")])
        cb("vdm[j*n + i]", "nodes[i]**j", loops=[("i", 0, "n"), ("j", 0, "n")])
        cb("vdm_inverse", "`<builtin>linear_solve`(vdm, identity, n, n)")
        cb("myarray", "`<builtin>matmul`(vdm, vdm_inverse, n, n)")
        cb("myzero", "myarray - identity")
        with cb.if_("`<builtin>norm_2`(myzero) > 10**(-8)"):
            cb.raise_(ValueError, "inversion failed with a long message that has  two spaces")
        cb("<state>averyveryverylongstatevariablename_0123456789_0123456789",
           "`<builtin>norm_2`(myzero) + `<builtin>norm_2`(myarray) * <dt> + <t> * 3 + `<builtin>len`(nodes) "
           "+ `<builtin>norm_2`(vdm) + `<builtin>norm_2`(identity)")
    progs.append(("arrays", DAGCode.from_phases_list(
        [cb.as_execution_phase("primary")], "primary"), {}))
    # error messages with apostrophes, blanks and quotes (both targets put messages into the generated text)
    with CodeBuilder("primary") as cb:
        cb("<dt>", "<dt>/2")
        with cb.if_("<dt> < 1e-12"):
            cb.raise_(RuntimeError, "the step size can't be reduced any further: it fell below the controller's "
                                    "smallest step, \"dt_min\"")
        with cb.if_("<dt> < 1e-6"):
            cb.raise_(ValueError, "can't")
        cb("<t>", "<t> + <dt>")
    progs.append(("messages", DAGCode.from_phases_list(
        [cb.as_execution_phase("primary")], "primary"), {}))
    # long headers of compound statements: loop bounds and statement guards that do not fit one line, in many
    # lengths (so that some last continuation line ends right at the width) and at two nesting depths
    from dagrt.language import Assign
    from dagrt.expression import parse
    for nterms in range(3, 15):
        # (plain variables only: the Fortran generator takes no calls in loop bounds and guards)
        bound = " + ".join(f"length_of_work_array_number_{k}*offset_{k}" for k in range(nterms))
        guard = " + ".join(f"weight_{k}*norm_of_work_array_number_{k}" for k in range(nterms)) + " < <p>tolerance"
        with CodeBuilder("primary") as cb:
            for k in range(nterms):
                cb(f"length_of_work_array_number_{k}", "3")
                cb(f"norm_of_work_array_number_{k}", "1.5")
                cb(f"offset_{k}", str(k + 1))
                cb(f"weight_{k}", str(k + 2))
            cb("acc", "`<builtin>array`(500)")
            cb("acc[i]", "i", loops=[("i", 0, bound)])
            cb("acc[i + j]", "i*j", loops=[("i", 0, "3"), ("j", 0, bound)])
            with cb.if_("<dt> < 1"):
                cb("acc[i + j]", "i + j", loops=[("i", 0, "3"), ("j", 0, bound)])
            cb("<p>tolerance", "100")
        stmts = list(cb.statements)
        last = stmts[-1].id
        stmts.append(Assign("<t>", (), parse("<t> + <dt>"), id="guarded_0", condition=parse(guard),
                            depends_on=frozenset([last])))
        from dagrt.language import ExecutionPhase
        progs.append((f"long-headers-{nterms}", DAGCode({"primary": ExecutionPhase("primary", "primary", frozenset(stmts))},
                                                        "primary"), {}))
    # phase names of every length up to what a Fortran identifier allows (they appear in generated names and in
    # whatever the generator writes next to them)
    for n in (27, 33, 39, 46):
        pname = ("advance_solution_with_step_size_control_and_more")[:n]
        with CodeBuilder(pname) as cb:
            cb("<dt>", "<dt>/2")
            with cb.if_("<dt> < 1e-6"):
                cb.fail_step()
            cb("<t>", "<t> + <dt>")
        progs.append((f"phase-name-of-{n}-characters", DAGCode.from_phases_list(
            [cb.as_execution_phase(pname)], pname), {}))
    return progs


HASH_TEMPLATE_LINES = ["write(*,*) 'rhs evaluation #1'",
                       "write(*,*) 'this is the right-hand side of the test problem, called for the', "
                       "'(end of record #2 of the log)', ' and then some more text to make it wrap'",
                       "${result} = -2*${y} ! see note #3"]


def hash_in_user_text_program():
    """A right-hand side whose Fortran template carries '#' inside character literals and a trailing comment (user
    text: the generator copies it into the module).  -> (dag, registry, user type map)"""
    import dagrt.codegen.fortran as f
    from dagrt.function_registry import base_function_registry, register_ode_rhs
    from dagrt.language import CodeBuilder, DAGCode
    from pymbolic import var
    with CodeBuilder("primary") as cb:
        cb("k", "<func>f(<t>, <state>y)")
        cb("<state>y", "<state>y + <dt>*k")
        cb.yield_state("<state>y", "ytype", var("<t>"), "final")
    dag = DAGCode.from_phases_list([cb.as_execution_phase("primary")], "primary")
    freg = register_ode_rhs(base_function_registry, "ytype", identifier="<func>f", input_names=("y",))
    freg = freg.register_codegen("<func>f", "fortran", f.CallCode("\n" + "\n".join(
        "                " + ln for ln in HASH_TEMPLATE_LINES) + "\n                "))
    utm = {"ytype": f.ArrayType((5,), f.BuiltinType("real*8"), index_vars="idx")}
    return dag, freg, utm


def check_emitted(rec, text, target, context, witness, mon=None):
    from vf.wrapmon import judge_emitted_pieces, judge_emitted_text
    if target != "fortran":
        # the Python generator writes parts of the class (tables, boilerplate) without going through the
        # wrapper; only the Fortran generator passes EVERY emitted line through wrap_line (get_code).  For Python
        # the lines that did come out of the wrapper are looked up in the emitted text.
        if mon is not None:
            rec.count("emitted_modules_scanned_python")
            for mech, why in judge_emitted_pieces(text, mon.pieces["python"], "\\")[:1]:
                rec.violation(mech, f"[python, {context}] {why}", witness)
            mon.pieces["python"].clear()
        return
    rec.count(f"emitted_modules_scanned_{target}")
    rec.count(f"emitted_lines_scanned_{target}", text.count("\n") + 1)
    for mech, why in judge_emitted_text(text, "&" if target == "fortran" else "\\",
                                        "!" if target == "fortran" else "#")[:1]:
        rec.violation(mech, f"[{target}, {context}] {why}", witness)


def repeated_statement_programs(rng):
    """The same long statement at several nesting depths of one phase (shallow first / deep first)."""
    from dagrt.language import CodeBuilder, DAGCode
    progs = []
    for order in ("shallow-first", "deep-first"):
        depth = rng.choice([1, 2, 3])
        lhs = rng.choice(["<state>accumulated_value", "<p>a_persistent_quantity_with_a_long_name", "acc_tmp"])
        nt = rng.randint(4, 6)
        terms = [f"<state>u{k}*<state>coefficient_{k}" for k in range(nt)]
        rhs = " + ".join(terms)
        with CodeBuilder("primary") as cb:
            for k in range(nt):
                cb(f"<state>u{k}", f"<dt>*{k + 1}")
                cb(f"<state>coefficient_{k}", f"<t> + {k}")
            def deep(d):
                if d == 0:
                    cb(lhs, rhs)
                    return
                with cb.if_(f"<state>u{d} > {d}"):
                    deep(d - 1)
            if order == "shallow-first":
                cb(lhs, rhs)
                deep(depth)
            else:
                deep(depth)
                cb(lhs, rhs)
            cb("<state>result", lhs + " + 1")
        progs.append((order, depth, DAGCode.from_phases_list([cb.as_execution_phase("primary")], "primary")))
    return progs


def run_generators(shard, rec):
    import dagrt.codegen.fortran as f
    from dagrt.codegen import PythonCodeGenerator
    from dagrt.function_registry import base_function_registry, register_ode_rhs
    from dagrt.language import CodeBuilder, DAGCode
    mon = WrapMonitor(rec)
    mon.attach()
    mon.ast_check = True
    try:
        for name, dag, utm in sample_programs():
            before = rec.counters.get("wrap_contract_evaluations_python", 0)
            try:
                ptext = PythonCodeGenerator(class_name="M")(dag)
                ftext = f.CodeGenerator("m_" + "".join(c if c.isalnum() else "_" for c in name),
                                        user_type_map=utm)(dag)
            except Exception as ex:
                # a generator that cannot wrap one of its own lines has no wrapped form at all
                rec.violation(f"generator-raises-{type(ex).__name__}-while-emitting",
                              f"[{name}] {type(ex).__name__}: {ex}", {"sample": name})
                rec.case(["generator-program", name])
                continue
            check_emitted(rec, ptext, "python", name, {"sample": name}, mon)
            rec.count("generator_lines_python",
                      rec.counters.get("wrap_contract_evaluations_python", 0) - before)
            before = rec.counters.get("wrap_contract_evaluations_fortran", 0)
            check_emitted(rec, ftext, "fortran", name, {"sample": name})
            if fort.have_gfortran():
                # the emitted module as a whole must still be Fortran (free-form continuation rules, literals)
                with fort.Scratch("vf-c20-") as d:
                    rc, out = fort.compile_(d, [("m.f90", ftext)], exe="m.o", flags=["-fsyntax-only"])
                rec.count("emitted_fortran_modules_syntax_checked")
                if rc != 0:
                    rec.violation("emitted-fortran-module-rejected-by-compiler",
                                  f"[{name}] gfortran -fsyntax-only: {out[-600:]}", {"sample": name})
            rec.count("generator_lines_fortran",
                      rec.counters.get("wrap_contract_evaluations_fortran", 0) - before)
            mon.flush(rec, context="generator:" + name)
            rec.case(["generator-program", name])
        # '#' in user text that is not a preprocessor line
        try:
            hdag, hreg, hutm = hash_in_user_text_program()
            htext = f.CodeGenerator("m_hash", function_registry=hreg, user_type_map=hutm)(hdag)
        except Exception as ex:
            rec.violation(f"generator-raises-{type(ex).__name__}-while-emitting",
                          f"[hash-in-user-text] {type(ex).__name__}: {ex}", {"sample": "hash-in-user-text"})
        else:
            check_emitted(rec, htext, "fortran", "hash-in-user-text", {"sample": "hash-in-user-text"})
            joined = " ".join(x.strip().rstrip("&").strip() for x in htext.split("\n"))
            for piece in ("'rhs evaluation #1'", "'(end of record #2 of the log)'", "! see note #3"):
                rec.count("user_text_pieces_looked_up")
                if piece not in joined:
                    rec.violation("user-text-with-hash-altered-in-emitted-module",
                                  f"{piece!r} does not come out of the generator as it went in",
                                  {"sample": "hash-in-user-text"})
                    break
            bad = [ln for ln in htext.split("\n") if ln.startswith("#")]
            if bad:
                rec.violation("emitted-line-turned-into-preprocessor-line",
                              f"no preprocessor line went in, these came out: {bad[:3]}",
                              {"sample": "hash-in-user-text"})
            if fort.have_gfortran():
                with fort.Scratch("vf-c20-") as d:
                    rc, out = fort.compile_(d, [("m.f90", htext)], exe="m.o", flags=["-fsyntax-only"])
                rec.count("emitted_fortran_modules_syntax_checked")
                if rc != 0:
                    rec.violation("emitted-fortran-module-rejected-by-compiler",
                                  f"[hash-in-user-text] gfortran -fsyntax-only: {out[-600:]}",
                                  {"sample": "hash-in-user-text"})
            rec.case(["generator-program", "hash-in-user-text"])
        # a user-type program (long names -> long lines)
        with CodeBuilder("primary") as cb:
            cb("y_with_quite_a_long_temporary_name", "<state>y")
            cb("y_with_quite_a_long_temporary_name",
               "<func>f(0, 2*i*<func>f(0, y_with_quite_a_long_temporary_name if i > 2 else "
               "2*y_with_quite_a_long_temporary_name))", loops=(("i", 0, 5),))
            cb("<state>y", "y_with_quite_a_long_temporary_name + 3*<dt>*<state>y + <t>*<state>y")
            from pymbolic import var as _v
            cb.yield_state("<state>y", "ytype", _v("<t>"), "final")
        dag = DAGCode.from_phases_list([cb.as_execution_phase("primary")], "primary")
        freg = register_ode_rhs(base_function_registry, "ytype", identifier="<func>f", input_names=("y",))
        freg = freg.register_codegen("<func>f", "fortran", f.CallCode("""
                ${result} = -2*${y}
                """))
        before = rec.counters.get("wrap_contract_evaluations_fortran", 0)
        f.CodeGenerator("selfdep", function_registry=freg,
                        user_type_map={"ytype": f.ArrayType((100,), f.BuiltinType("real*8"),
                                                            index_vars="idx")})(dag)
        rec.count("generator_lines_fortran",
                  rec.counters.get("wrap_contract_evaluations_fortran", 0) - before)
        before = rec.counters.get("wrap_contract_evaluations_python", 0)
        PythonCodeGenerator(class_name="M")(dag)
        rec.count("generator_lines_python",
                  rec.counters.get("wrap_contract_evaluations_python", 0) - before)
        mon.flush(rec, context="generator:selfdep")
        rec.case(["generator-program", "selfdep"])
        # every line the two real generators emit for G_prog workloads (the C01 / C03 corpora)
        import random as _r
        from vf import ftn, prog
        rng = _r.Random(shard["seed"])
        for rep in range(max(2, shard.get("nprog", 40) // 10)):
            for order, depth, dag in repeated_statement_programs(rng):
                wit = {"repeated_statement": order, "depth": depth, "seed": shard["seed"], "rep": rep}
                check_emitted(rec, f.CodeGenerator("rep", user_type_map={})(dag), "fortran",
                              f"repeated-statement:{order}", wit)
                check_emitted(rec, PythonCodeGenerator(class_name="M")(dag), "python",
                              f"repeated-statement:{order}", wit, mon)
                mon.flush(rec, context="generator:repeated-statement")
                rec.case(["generator-repeated", order, depth, rep, shard["seed"]])
        for i in range(shard.get("nprog", 40)):
            script = prog.Gen(rng, profile="py").script()
            before = rec.counters.get("wrap_contract_evaluations_python", 0)
            try:
                text = PythonCodeGenerator(class_name="M")(prog.build(script))
            except Exception:
                continue
            check_emitted(rec, text, "python", "G_prog-py", {"gprog": "py", "i": i, "seed": shard["seed"]}, mon)
            rec.count("generator_lines_python", rec.counters.get("wrap_contract_evaluations_python", 0) - before)
            mon.flush(rec, context="generator:G_prog-py")
            rec.case(["generator-gprog-py", i, shard["seed"]])
        for i in range(shard.get("nprog", 40) // 3):
            script = ftn.FGen(rng, memory_bias=rng.random() < 0.5, two_types=rng.random() < 0.3).script()
            before = rec.counters.get("wrap_contract_evaluations_fortran", 0)
            try:
                text = ftn.generate(prog.build(script), script).code
            except Exception:
                continue
            check_emitted(rec, text, "fortran", "G_prog-ftn", {"gprog": "ftn", "i": i, "seed": shard["seed"]})
            rec.count("generator_lines_fortran", rec.counters.get("wrap_contract_evaluations_fortran", 0) - before)
            mon.flush(rec, context="generator:G_prog-ftn")
            rec.case(["generator-gprog-ftn", i, shard["seed"]])
    finally:
        mon.detach()

# }}}


# {{{ Fortran: compile and run wrapped vs unwrapped

def run_fortran(shard, rec):
    if not fort.have_gfortran():
        rec.notes.append("gfortran missing")
        return
    rng = random.Random(shard["seed"])
    mon = WrapMonitor(rec)
    _, F_wrap = mon.attach()
    try:
        stmts = []
        for i in range(shard["count"]):
            n = rng.randint(2, 12)
            toks = py_expr_tokens(rng, n)
            toks = [{"a": "a", "bb": "bb", "c1": "c1", "1": "1.0d0", "2.5": "2.5d0", "100": "100.0d0",
                     "3.25": "3.25d0", "f": "max"}.get(t, t) for t in toks]
            if rng.random() < 0.3:
                line = "write(*,*) " + rng.choice(STRS[:6]) + " , " + glue(rng, toks)
                lhs = None
            else:
                lhs = f"r({i + 1})"
                line = lhs + " = " + glue(rng, toks)
            level = rng.choice([1, 2, 4, 8])
            width = rng.choice([20, 30, 40, 60, 80])
            res = F_wrap(line, level=level, width=width, indentation=" ")
            mon.flush(rec)
            stmts.append((line, level, res))
            rec.case(["fortran-exec", line, level, width], nontrivial=len(res) >= 2)
        decl = ("program t\nimplicit none\nreal(8) :: a, bb, c1, averyveryverylongidentifier_that_goes_on_and_on_0123456789\n"
                f"real(8) :: r({len(stmts) + 1})\ninteger :: i\n"
                "a = 1.5d0\nbb = 2.0d0\nc1 = -0.75d0\naveryveryverylongidentifier_that_goes_on_and_on_0123456789 = 3.0d0\nr = 0\n")
        tail = f"do i = 1, {len(stmts)}\nwrite(*,'(ES25.17E3)') r(i)\nend do\nend program\n"
        plain = decl + "".join(" " * lv + ln + "\n" for ln, lv, _ in stmts) + tail
        wrapped = decl + "".join("".join(" " * lv + w + "\n" for w in res) for _, lv, res in stmts) + tail
        with fort.Scratch("vf-c20-") as d:
            rc1, out1 = fort.compile_(d, [("plain.f90", plain)], exe="plain", flags=["-ffree-line-length-none"])
            rc2, out2 = fort.compile_(d, [("wrapped.f90", wrapped)], exe="wrapped",
                                      flags=["-ffree-line-length-none"])
            if rc1 != 0:
                rec.notes.append("unwrapped Fortran batch does not compile: " + out1[-400:])
                return
            if rc2 != 0:
                rec.violation("fortran-wrapped-rejected-by-compiler",
                              "gfortran accepts the unwrapped statements but rejects the wrapped ones: "
                              + out2[-600:], {"seed": shard["seed"], "count": shard["count"], "target": "fortran"})
                return
            r1 = fort.run(d, "plain")
            r2 = fort.run(d, "wrapped")
            rec.count("fortran_statements_executed", len(stmts))
            if r1[0] != 0:
                rec.notes.append("unwrapped Fortran batch failed at run time")
                return
            if r1[1] != r2[1] or r2[0] != 0:
                rec.violation("fortran-wrapped-output-differs",
                              "wrapped and unwrapped Fortran statements print different values",
                              {"seed": shard["seed"], "count": shard["count"], "target": "fortran"})
    finally:
        mon.detach()

# }}}


def run_shard(shard, rec):
    if shard["kind"] == "tokens":
        run_tokens(shard, rec)
    elif shard["kind"] == "generators":
        run_generators(shard, rec)
    else:
        run_fortran(shard, rec)


def replay(witness, rec):
    mon = WrapMonitor(rec)
    P_wrap, F_wrap = mon.attach()
    try:
        if "line" in witness:
            if witness.get("target") == "fortran":
                F_wrap(witness["line"], level=witness["level"], width=witness["width"],
                       indentation=witness.get("indentation", " "))
            else:
                check_python_ast(witness["line"], witness["level"], witness["width"], rec, P_wrap)
            mon.flush(rec)
            rec.case(witness)
        else:
            mon.detach()
            run_fortran({"seed": witness["seed"], "count": witness["count"]}, rec)
            mon.attach()
    finally:
        mon.detach()
