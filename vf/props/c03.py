"""C03 — the compiled Fortran stepper computes the same states as the interpreter.

Monitor: differential over the Fortran harness (vf.ftn): the module emitted by
the real Fortran generator is compiled (gfortran, ASan+UBSan build) together
with a driver written from the script; after every run() call the dumped
persistent variables, returned state/time/time-id slots and next phase are
compared with what the real interpreter holds after the corresponding step."""
import random

from vf import fort, ftn
from vf.runner import CaseTimeout, case_alarm

ID = "C03"
LEVEL = "exploration"
RULE = ("G_prog profile 'ftn': real scalars, arrays (array(n) + element loops incl. zero-/one-trip and variable "
        "bounds), one or two user vector types, guarded statements, (nested) conditional expressions, all six "
        "comparison operators, bare and left-nested powers, min/max, built-ins norm_2/len/isnan/elementwise_abs/"
        "array, registered scalar and right-hand-side functions (positional/keyword), 1-3 phases with fail/"
        "switch/restart, 1-5 run calls; generated, compiled and run; compared after every run call. distinct = "
        "canonical JSON of the script; non-trivial = defined, compiled and >=2 run calls or a failed/switched step")
ASSUMPTIONS = [
    "cases the reference semantics leaves undefined (uninitialised reads, bad subscripts, aliasing-sensitive "
    "element writes ...) are excluded: an uninitialised Fortran local is undefined behaviour, not a counterexample",
    "values compared with rtol=1e-9; one Fortran run() call corresponds to one interpreter step attempt "
    "(completed, failed or switched)",
]
ANCHORS = ["dagrt.codegen.fortran:CodeGenerator.__call__", "dagrt.codegen.fortran:CodeGenerator.lower_inst",
           "dagrt.codegen.fortran:CodeGenerator.emit_inst_Assign", "dagrt.codegen.transform:expand_IfThenElse",
           "dagrt.codegen.expressions:FortranExpressionMapper.map_constant"]
MIN_NONTRIVIAL = {"quick": 120, "thorough": 3779}
REQUIRED_COUNTERS = {"quick": ["programs_compiled", "run_calls_compared", "values_compared"],
                     "thorough": ["programs_compiled", "run_calls_compared", "values_compared"]}
SHARD_TIMEOUT = {"quick": 900, "thorough": 3400}


def plan(tier, seed):
    per = 16 if tier == "quick" else 660
    return [{"seed": f"C03:{seed}:{k}", "count": per} for k in range(16)]


def check_script(script, rec):
    wit = {"script": script}
    try:
        with case_alarm(180):
            # leaks and shutdown's 'leaked reference' lines are C12's business
            obs = ftn.execute(script, env={"ASAN_OPTIONS": "detect_leaks=0:halt_on_error=1:abort_on_error=0:exitcode=23"})
    except CaseTimeout:
        rec.timeout()
        return None
    if obs.undefined:
        rec.undef(obs.undefined)
        return None
    if obs.gen_error:
        rec.violation(f"fortran-generator-raises-{obs.gen_error[0]}",
                      f"{obs.gen_error[0]}: {obs.gen_error[1]}\n{obs.gen_error[2]}", wit)
        return False
    if obs.compile_error:
        rec.violation("emitted-module-does-not-compile:" + ftn.compile_error_key(obs.compile_error),
                      obs.compile_error[-1500:], wit)
        return False
    rec.count("programs_compiled")
    if obs.rc is None:
        rec.timeout()
        return None
    err = "\n".join(ln for ln in obs.stderr.splitlines()
                    if "leaked reference" not in ln and "remaining refcount" not in ln).strip()
    if obs.rc != 0 or not obs.done or err:
        kind = ("sanitizer-report" if "Sanitizer" in err or "runtime error" in err else
                "fortran-runtime-error" if "Fortran runtime error" in err else
                "stderr-output" if err else "abnormal-exit")
        mech = f"fortran-run-{kind}"
        if script.get("subscripts_elementwise_abs_result") and "bound" in err:
            mech = "elementwise-abs-of-array-result-is-one-based"
        rec.violation(mech, f"rc={obs.rc} done={obs.done} stderr: {err[-1200:]}", wit)
        return False
    if len(obs.steps) != len(obs.ref):
        rec.violation("run-call-count-differs", f"{len(obs.steps)} dumps for {len(obs.ref)} steps", wit)
        return False
    rec.count("run_calls_compared", len(obs.steps))
    rec.count("values_compared", sum(len(s["vars"]) + len(s["ret"]) + 1 for s in obs.steps))
    for r in obs.ref:
        rec.count("interpreter_steps_" + r["outcome"])
    d = ftn.compare_with_interpreter(obs.steps, obs.ref, obs.dag, script)
    if d is not None:
        mech = f"fortran-differs-from-interpreter:{d[0]}"
        if script.get("subscripts_elementwise_abs_result") and d[0] in ("persistent-value", "returned-state"):
            mech = "elementwise-abs-of-array-result-is-one-based"
        rec.violation(mech, d[1], wit)
        return False
    return True


def run_shard(shard, rec):
    if not fort.have_gfortran():
        rec.notes.append("gfortran missing")
        return
    rng = random.Random(shard["seed"])
    for i in range(shard["count"]):
        big = i % 8 == 7
        g = ftn.FGen(rng, two_types=rng.random() < 0.3, max_ops=24 if big else 10,
                     struct_type=rng.random() < 0.15)
        script = g.script()
        if big:
            rec.count("large_programs")
        ok = check_script(script, rec)
        nt = ok is True and (script["ncalls"] >= 2)
        rec.case(script, nontrivial=nt)


def replay(witness, rec):
    check_script(witness["script"], rec)
    rec.case(witness["script"])
