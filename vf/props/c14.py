"""C14 — kind inference is order-independent; unify is a partial join.

Monitors: (i) the real `unify` driven over the whole finite kind universe
(pairs, triples); (ii) an icontract postcondition on `unify` (symmetry of every
call the inference itself makes) plus a recording wrapper on
SymbolKindTable.set counting swallowed unification failures; (iii) metamorphic:
the same program presented in permuted statement / phase order, in different
containers and under several PYTHONHASHSEEDs must give one table."""
import io
import itertools
import json
import os
import random
import subprocess
import sys
from contextlib import redirect_stdout

from vf import VERIF_ROOT
from vf.runner import CaseTimeout, case_alarm

ID = "C14"
LEVEL = "exploration"
RULE = ("(i) all 81 pairs and 729 triples over {None, Boolean, Integer, Scalar(real), Scalar(complex), "
        "Array(real), Array(complex), UserType(a), UserType(b)} through the real unify; (ii)+(iii) seeded "
        "kind programs (scalars, complex promotion chains, arrays with element loops, user-type values from "
        "registered right-hand sides, norms, use-before-definition across phases, sums with one not-yet-known "
        "operand; a separate class with deliberately conflicting kinds), each inferred under permuted statement "
        "and phase orders, list/tuple/frozenset containers and several PYTHONHASHSEEDs; tables are canonicalised "
        "and must be identical. distinct = canonical JSON of the program; non-trivial = >=3 assignments and "
        ">=2 different kinds in the resulting table")
ASSUMPTIONS = [
    "two presentations are 'the same program' when they contain the same statements per phase",
    "an inference that raises is compared only as success-vs-failure, not by exception text",
]
ANCHORS = ["dagrt.data:unify", "dagrt.data:SymbolKindTable.set", "dagrt.data:SymbolKindFinder.__call__",
           "dagrt.data:KindInferenceMapper.map_sum"]
MIN_NONTRIVIAL = {"quick": 1200, "thorough": 12600}
REQUIRED_COUNTERS = {"quick": ["unify_pairs", "unify_triples", "presentations_compared",
                               "unify_contract_evaluations", "hashseed_tables_compared"],
                     "thorough": ["unify_pairs", "unify_triples", "presentations_compared",
                                  "unify_contract_evaluations", "hashseed_tables_compared"]}
SHARD_TIMEOUT = {"quick": 600, "thorough": 3000}


def _last_json(stdout):
    """The child prints its result on a marked last line (anything the code under test prints comes before)."""
    for ln in reversed(stdout.splitlines()):
        if ln.startswith("VFJSON:"):
            return json.loads(ln[7:])
    raise ValueError("child produced no result line")


def plan(tier, seed):
    sh = [{"kind": "algebra"}]
    n = 16
    per = 60 if tier == "quick" else 2100
    for k in range(n):
        sh.append({"kind": "prog", "seed": f"C14:{seed}:{k}", "count": per,
                   "nperm": 12 if tier == "quick" else 40,
                   "hashseeds": [1, 2, 3] if tier == "quick" else [1, 2, 3, 4, 5, 6, 7]})
    return sh


# {{{ (i) algebra

def universe():
    from dagrt.data import Array, Boolean, Integer, Scalar, UserType
    return [("None", None), ("Boolean", Boolean()), ("Integer", Integer()),
            ("Scalar(real)", Scalar(True)), ("Scalar(complex)", Scalar(False)),
            ("Array(real)", Array(True)), ("Array(complex)", Array(False)),
            ("UserType(a)", UserType("a")), ("UserType(b)", UserType("b"))]


def kname(k):
    from dagrt.data import Array, Boolean, Integer, Scalar, UserType
    if k is None:
        return "None"
    if isinstance(k, (Scalar, Array)):
        return f"{type(k).__name__}({'real' if k.is_real_valued else 'complex'})"
    if isinstance(k, UserType):
        return f"UserType({k.identifier})"
    return type(k).__name__


def outcome(f, *a):
    try:
        return ("ok", f(*a))
    except Exception as e:
        return ("fail", type(e).__name__)


def fam(n):
    return n.split("(")[0]


def run_algebra(rec):
    from dagrt.data import unify
    U = universe()
    for (na, a) in U:
        o = outcome(unify, a, a)
        rec.count("unify_idempotence_checks")
        if o[0] == "ok" and o[1] != a:
            rec.violation("unify-not-idempotent", f"unify({na},{na}) = {kname(o[1])}", {"a": na})
    for (na, a), (nb, b) in itertools.product(U, U):
        o1, o2 = outcome(unify, a, b), outcome(unify, b, a)
        rec.count("unify_pairs")
        rec.case(["pair", na, nb], by_construction=True)
        if o1[0] != o2[0]:
            fams = sorted([fam(na), fam(nb)])
            rec.violation(f"unify-asymmetric-definedness-{fams[0]}-{fams[1]}",
                          f"unify({na},{nb}) -> {o1[0]}:{kname(o1[1]) if o1[0]=='ok' else o1[1]} but "
                          f"unify({nb},{na}) -> {o2[0]}:{kname(o2[1]) if o2[0]=='ok' else o2[1]}",
                          {"a": na, "b": nb})
        elif o1[0] == "ok" and o1[1] != o2[1]:
            fams = sorted([fam(na), fam(nb)])
            rec.violation(f"unify-not-commutative-{fams[0]}-{fams[1]}",
                          f"unify({na},{nb}) = {kname(o1[1])} but unify({nb},{na}) = {kname(o2[1])}",
                          {"a": na, "b": nb})
    for (na, a), (nb, b), (nc, c) in itertools.product(U, U, U):
        rec.count("unify_triples")
        rec.case(["triple", na, nb, nc], by_construction=True)

        def left():
            return unify(unify(a, b), c)

        def right():
            return unify(a, unify(b, c))
        o1, o2 = outcome(left), outcome(right)
        if o1[0] != o2[0] or (o1[0] == "ok" and o1[1] != o2[1]):
            fams = sorted({fam(na), fam(nb), fam(nc)})
            rec.violation("unify-not-associative-" + "-".join(fams),
                          f"(({na} u {nb}) u {nc}) -> {o1[0]}:{kname(o1[1]) if o1[0]=='ok' else o1[1]} but "
                          f"({na} u ({nb} u {nc})) -> {o2[0]}:{kname(o2[1]) if o2[0]=='ok' else o2[1]}",
                          {"a": na, "b": nb, "c": nc})

# }}}


# {{{ program generator (JSON statement descriptions)

def gen_program(rng, conflict=False):
    """Returns {"phases": {name: [stmt,...]}, "order": [names]}.
    stmt: ["assign", lhs, sexpr] | ["eassign", arr, idxvar, n_expr, sexpr] | ["call", [lhs], fname, [args], {kw}]
    """
    nph = rng.choice([1, 1, 2, 2, 3])
    names = ["p%d" % i for i in range(nph)]
    phases = {n: [] for n in names}
    # typed pools of variables already assigned (per phase for locals; global persistent)
    pers = {"real": ["<state>s", "<dt>", "<t>"], "cplx": [], "arr": [], "carr": [], "ut": ["<state>v"], "int": []}
    # persistent variables must be assigned somewhere
    first = names[0]
    phases[first].append(["assign", "<state>s", ["num", 1.5]])
    phases[first].append(["call", ["<state>v"], "<func>f", [["var", "<t>"], ["var", "<state>v"]], {}])
    cnt = itertools.count()

    def fresh(pref):
        return f"{pref}{next(cnt)}"

    for pn in names:
        loc = {k: list(v) for k, v in pers.items()}
        nst = rng.randint(3, 10)
        for _ in range(nst):
            r = rng.random()
            tgt_pers = rng.random() < 0.25

            def lhs(pref, kind):
                n = (("<p>" if rng.random() < 0.6 else "<state>") + fresh(pref)) if tgt_pers else fresh(pref)
                (pers if tgt_pers else loc)[kind].append(n)
                if tgt_pers:
                    loc[kind].append(n)
                return n

            def realexpr(depth=2):
                c = rng.random()
                if depth == 0 or c < 0.3:
                    if c < 0.12 or not loc["real"]:
                        return ["num", rng.choice([1, 2, 0.5, 3.25, -1.5])]
                    return ["var", rng.choice(loc["real"])]
                op = rng.choice(["+", "*", "-", "/", "**", "min", "len", "norm", "sub", "int", "dot"])
                if op == "dot" and (loc["arr"] or loc["ut"]):
                    pool = loc["arr"] if (loc["arr"] and (not loc["ut"] or rng.random() < 0.6)) else loc["ut"]
                    fn = rng.choice(["<builtin>dot_product", "<builtin>dot_product", "<builtin>norm_1",
                                     "<builtin>norm_inf"])
                    if fn == "<builtin>dot_product":
                        return ["call", fn, [["var", rng.choice(pool)], ["var", rng.choice(pool)]], {}]
                    return ["call", fn, [["var", rng.choice(pool)]], {}]
                if op in ("+", "*", "-"):
                    return [op, realexpr(depth - 1), realexpr(depth - 1)]
                if op == "/":
                    return ["/", realexpr(depth - 1), ["+", ["*", realexpr(0), realexpr(0)], ["num", 1]]]
                if op == "**":
                    return ["**", realexpr(depth - 1), ["num", rng.choice([2, 3])]]
                if op == "min":
                    return [rng.choice(["min", "max"]), realexpr(depth - 1), realexpr(depth - 1)]
                if op == "len" and loc["arr"]:
                    return ["call", "<builtin>len", [["var", rng.choice(loc["arr"])]], {}]
                if op == "norm" and (loc["ut"] or loc["arr"]):
                    return ["call", "<builtin>norm_2", [["var", rng.choice(loc["ut"] + loc["arr"])]], {}]
                if op == "sub" and loc["arr"]:
                    return ["sub", ["var", rng.choice(loc["arr"])], ["num", 0]]
                if op == "int" and loc["int"]:
                    return ["var", rng.choice(loc["int"])]
                return realexpr(0)

            def cplxexpr():
                base = ["*", ["cnum", 0.0, 1.0], realexpr(1)]
                if loc["cplx"] and rng.random() < 0.5:
                    return ["+", ["var", rng.choice(loc["cplx"])], realexpr(1)]
                return base

            if r < 0.13 and (loc["arr"] or loc["ut"]):
                # an accumulator that starts as a (complex or real) scalar and widens to an array / user type:
                # legal joins, reached in an order that depends on the presentation
                big = rng.choice(loc["arr"] + loc["ut"])
                kind = "arr" if big in loc["arr"] else "ut"
                acc = lhs("acc", "carr" if kind == "arr" else "ut")
                start = cplxexpr() if (rng.random() < 0.6 and kind == "arr") else realexpr(0)
                if loc["int"] and rng.random() < 0.6:
                    # (... + a loop counter: while the other term is unknown the accumulator is provisionally an integer)
                    start = ["+", start, ["var", rng.choice(loc["int"])]]
                phases[pn].append(["assign", acc, start])
                phases[pn].append(["assign", acc, ["+", ["var", acc], ["var", big]]])
                if kind == "arr" and rng.random() < 0.65:
                    # ... and handed to a built-in whose result kind is computed from its argument's kind
                    fn, extra = rng.choice([("<builtin>transpose", [["num", 1]]), ("<builtin>elementwise_abs", [])])
                    phases[pn].append(["call", [lhs("tr", "carr")], fn, [["var", acc]] + extra, {}])
                if kind == "arr" and rng.random() < 0.7:
                    # ... and is subscripted (legal: its final kind is an array)
                    phases[pn].append(["assign", lhs("e", "cplx"), ["sub", ["var", acc], ["num", 0]]])
            elif r < 0.30:
                rhs = realexpr()
                phases[pn].append(["assign", lhs("x", "real"), rhs])
            elif r < 0.42:
                rhs = cplxexpr()
                phases[pn].append(["assign", lhs("z", "cplx"), rhs])
            elif r < 0.55:
                rhs = realexpr(1)
                a = lhs("a", "arr")
                phases[pn].append(["call", [a], "<builtin>array", [["num", 3]], {}])
                i = fresh("i")
                phases[pn].append(["eassign", a, i, ["num", 3], ["*", ["var", i], rhs]])
                loc["int"].append(i)
            elif r < 0.63 and loc["arr"]:
                if loc["carr"] and rng.random() < 0.35:
                    # a sum of a real and a complex array (either may be known first): complex array
                    terms = [["var", rng.choice(loc["arr"])], ["var", rng.choice(loc["carr"])]]
                    if rng.random() < 0.5:
                        terms.append(["var", rng.choice(loc["arr"])])
                    if rng.random() < 0.3:
                        terms.reverse()
                    phases[pn].append(["assign", lhs("sb", "carr"), ["+"] + terms])
                elif rng.random() < 0.5:
                    rhs = ["+", ["var", rng.choice(loc["arr"])],
                           ["*", realexpr(1), ["var", rng.choice(loc["arr"])]]]
                    phases[pn].append(["assign", lhs("b", "arr"), rhs])
                else:
                    rhs = ["*", ["cnum", 0.0, 2.0], ["var", rng.choice(loc["arr"])]]
                    phases[pn].append(["assign", lhs("cb", "carr"), rhs])
            elif r < 0.69 and (loc["arr"] or loc["carr"]):
                # built-ins whose result kind is computed from the argument kinds, as call statements: visited
                # before or after their arguments' kinds are known, depending on the presentation
                pool = loc["arr"] + loc["carr"]
                a, b = rng.choice(pool), rng.choice(pool)
                anyc = a in loc["carr"] or b in loc["carr"]
                q = rng.random()
                if q < 0.4:
                    phases[pn].append(["call", [lhs("d", "cplx")], "<builtin>dot_product",
                                       [["var", a], ["var", b]], {}])
                elif q < 0.55:
                    phases[pn].append(["call", [lhs("e", "carr" if a in loc["carr"] else "arr")],
                                       "<builtin>elementwise_abs", [["var", a]], {}])
                elif q < 0.7:
                    phases[pn].append(["call", [lhs("m", "carr" if anyc else "arr")], "<builtin>matmul",
                                       [["var", a], ["var", b], ["num", 1], ["num", 1]], {}])
                elif q < 0.85:
                    phases[pn].append(["call", [lhs("ls", "carr" if anyc else "arr")], "<builtin>linear_solve",
                                       [["var", a], ["var", b], ["num", 1], ["num", 1]], {}])
                else:
                    phases[pn].append(["call", [lhs("tr", "carr" if a in loc["carr"] else "arr")],
                                       "<builtin>transpose", [["var", a], ["num", 1]], {}])
            elif r < 0.75:
                args = [realexpr(1), ["var", rng.choice(loc["ut"])]]
                u = lhs("u", "ut")
                phases[pn].append(["call", [u], "<func>f", args, {}])
            elif r < 0.85:
                rhs = ["+", ["var", rng.choice(loc["ut"])],
                       ["*", realexpr(1), ["var", rng.choice(loc["ut"])]]]
                phases[pn].append(["assign", lhs("w", "ut"), rhs])
            elif r < 0.93:
                # sum with an operand that is only defined later / elsewhere
                later = ("<p>" + fresh("late"))
                kind = rng.choice(["real", "cplx"])
                rhs = ["+", ["var", later], realexpr(1)]
                phases[pn].append(["assign", lhs("y", kind), rhs])
                where = rng.choice(names)
                rhs = realexpr(0) if kind == "real" else ["*", ["cnum", 0.0, 1.0], ["num", 2.0]]
                if rhs[0] == "var":
                    rhs = ["num", 2.0]
                phases[where].append(["assign", later, rhs])
                pers[kind].append(later)
            else:
                # reassignment of an existing variable with a compatible, wider kind
                if loc["real"] and rng.random() < 0.7:
                    cands = [v for v in loc["real"] if not v.startswith("<t") and not v.startswith("<dt")]
                    if cands:
                        v = rng.choice(cands)
                        phases[pn].append(["assign", v, cplxexpr() if rng.random() < 0.5 else realexpr()])
            if conflict and rng.random() < 0.25:
                pool = [v for k in ("real", "arr", "ut") for v in loc[k]
                        if not v.startswith("<t") and not v.startswith("<dt")]
                if pool:
                    v = rng.choice(pool)
                    other = rng.choice([
                        ["call", [v], "<builtin>array", [["num", 2]], {}],
                        ["call", [v], "<func>f", [["num", 0.0], ["var", "<state>v"]], {}],
                        ["assign", v, ["cmp", "<", ["num", 1], ["num", 2]]],
                    ])
                    phases[pn].append(other)
    if nph >= 2 and rng.random() < 0.4:
        # the SAME local name, with different kinds, under the same right-hand sides in several phases (locals are
        # scoped per phase): 'k <- f(t, v); inc <- dt*k' here, 'k <- 1.5; inc <- dt*k' there
        kinds = rng.sample(["ut", "real", "cplx", "arr"], min(nph, rng.choice([2, 2, 3])))
        # (sometimes a local whose name merely BEGINS like the two tag-only names <t> and <dt>)
        kn = rng.choice(["k", "k", "<dt>_ctl", "<t>0", "<dt>x"])
        shared = rng.choice([["*", ["var", "<dt>"], ["var", kn]], ["+", ["var", kn], ["var", kn]],
                             ["*", ["num", 2], ["var", kn]]])
        for pn, kd in zip(names, kinds):
            if kd == "ut":
                phases[pn].append(["call", [kn], "<func>f", [["var", "<t>"], ["var", "<state>v"]], {}])
            elif kd == "real":
                phases[pn].append(["assign", kn, ["num", 1.5]])
            elif kd == "cplx":
                phases[pn].append(["assign", kn, ["cnum", 0.0, 1.0]])
            else:
                phases[pn].append(["call", [kn], "<builtin>array", [["num", 2]], {}])
            phases[pn].append(["assign", "inc", shared])
            if rng.random() < 0.5 and kd != "arr":
                phases[pn].append(["assign", "<p>h_" + pn, ["var", "inc"]])
    return {"phases": phases, "order": names}


def build_stmt(d, sid):
    from dagrt.language import Assign, AssignFunctionCall
    from vf.sexpr import to_pym
    if d[0] == "assign":
        return Assign(d[1], (), to_pym(d[2]), id=sid)
    if d[0] == "eassign":
        from pymbolic import var
        return Assign(d[1], (var(d[2]),), to_pym(d[4]), loops=[(d[2], 0, to_pym(d[3]))], id=sid)
    if d[0] == "call":
        return AssignFunctionCall(tuple(d[1]), d[2], tuple(to_pym(a) for a in d[3]),
                                  {k: to_pym(v) for k, v in d[4].items()}, id=sid)
    raise ValueError(d)


def registry():
    from dagrt.function_registry import base_function_registry, register_ode_rhs
    return register_ode_rhs(base_function_registry, "vt", identifier="<func>f", input_names=("y",))


def canon_table(tbl):
    g = sorted((n, kname(k)) for n, k in tbl.global_table.items())
    p = sorted((ph, sorted((n, kname(k)) for n, k in t.items()))
               for ph, t in tbl.per_phase_table.items() if t)
    return json.dumps([g, p])


def infer(prog, order, perms, mode):
    """Run the real inference on one presentation; returns ('ok', canon) | ('fail', excname)."""
    from dagrt.data import SymbolKindFinder, infer_kinds
    from dagrt.language import DAGCode, ExecutionPhase
    built = {}
    for pn in prog["phases"]:
        built[pn] = [build_stmt(d, f"{pn}_{i}") for i, d in enumerate(prog["phases"][pn])]
    freg = registry()
    buf = io.StringIO()
    import dagrt.data as D
    absorbed = []
    prev_set = D.SymbolKindTable.set

    def watching_set(self_, phase_name, name, kind):
        # a variable that is given BOTH a scalar and a user-type value: 'set' merges with the arithmetic rule
        # unify(UserType, Scalar) = UserType, i.e. the scalar kind is silently absorbed
        tbl = self_.global_table if D.is_state_variable(name) else self_.per_phase_table.get(phase_name, {})
        old = tbl.get(name)
        if old is not None and {isinstance(old, D.UserType), isinstance(kind, D.UserType)} == {True, False} \
                and isinstance(old, (D.UserType, D.Scalar, D.Integer)) \
                and isinstance(kind, (D.UserType, D.Scalar, D.Integer)):
            absorbed.append(name)
        return prev_set(self_, phase_name, name, kind)
    D.SymbolKindTable.set = watching_set
    try:
        return _infer(prog, order, perms, mode, built, freg, buf) + (len(absorbed),)
    finally:
        D.SymbolKindTable.set = prev_set


def _infer(prog, order, perms, mode, built, freg, buf):
    from dagrt.data import SymbolKindFinder, infer_kinds
    from dagrt.language import DAGCode, ExecutionPhase
    try:
        with redirect_stdout(buf):
            if mode in ("finder", "finder-iter"):
                lists = [[built[pn][i] for i in perms[pn]] for pn in order]
                if mode == "finder-iter":
                    # "a list of iterables, each yielding the statements in a phase": one-shot generators, as the
                    # Fortran generator hands over
                    lists = [(st for st in l) for l in lists]
                tbl = SymbolKindFinder(freg)(list(order), lists)
            else:
                cont = {"list": list, "tuple": tuple, "frozenset": frozenset}[mode]
                phases = {pn: ExecutionPhase(pn, pn, cont([built[pn][i] for i in perms[pn]]))
                          for pn in order}
                tbl = infer_kinds(DAGCode(phases, order[0]), freg)
        return ("ok", canon_table(tbl), buf.getvalue().count("trying to derive"))
    except CaseTimeout:
        raise
    except Exception as e:
        return ("fail", type(e).__name__, 0)

# }}}


# {{{ monitors attached to the real functions

class Mon:
    def __init__(self, rec):
        self.rec = rec
        self.swallowed = 0
        self.unify_asym = []

    def attach(self):
        import icontract
        import dagrt.data as D
        mon = self
        orig_unify = D.unify

        class UnifyAsym(Exception):
            pass

        def unify_symmetric(kind_a, kind_b, result):
            mon.rec.count("unify_contract_evaluations")
            o2 = outcome(orig_unify, kind_b, kind_a)
            if o2[0] != "ok" or o2[1] != result:
                mon.unify_asym.append((kname(kind_a), kname(kind_b), kname(result),
                                       kname(o2[1]) if o2[0] == "ok" else o2[1]))
            return True

        D.unify = icontract.ensure(unify_symmetric, error=UnifyAsym)(orig_unify)
        self._orig = orig_unify
        orig_set = D.SymbolKindTable.set

        def rec_set(self_, phase_name, name, kind):
            mon.rec.count("table_set_calls")
            return orig_set(self_, phase_name, name, kind)
        D.SymbolKindTable.set = rec_set
        self._orig_set = orig_set

    def detach(self):
        import dagrt.data as D
        D.unify = self._orig
        D.SymbolKindTable.set = self._orig_set

# }}}


def ntriv(prog, canon):
    nas = sum(len(v) for v in prog["phases"].values())
    kinds = set()
    for part in json.loads(canon):
        for item in part:
            if isinstance(item[1], str):
                kinds.add(item[1])
            else:
                kinds.update(k for _, k in item[1])
    return nas >= 3 and len(kinds) >= 2


def check_program(prog, rec, rng, nperm, conflict, mon=None):
    order0 = prog["order"]
    ident = {pn: list(range(len(prog["phases"][pn]))) for pn in order0}
    try:
        with case_alarm(30):
            base = infer(prog, order0, ident, "finder")
            results = [("finder/identity", base)]
            for j in range(nperm):
                order = order0[:]
                perms = {pn: ident[pn][:] for pn in order0}
                what = j % 4
                if what in (0, 2, 3):
                    for pn in order0:
                        rng.shuffle(perms[pn])
                if what in (1, 2):
                    rng.shuffle(order)
                if j == 3:
                    for pn in order0:
                        perms[pn] = perms[pn][::-1]
                mode = (("finder" if j % 2 else "finder-iter") if j % 3
                        else rng.choice(["list", "tuple", "frozenset"]))
                results.append((f"{mode}/perm{j}", infer(prog, order, perms, mode),
                                {"order": order, "perms": perms, "mode": mode}))
    except CaseTimeout:
        rec.timeout()
        return None
    rec.count("programs")
    cls = "conflict" if conflict else "wellkinded"
    for r in results[1:]:
        rec.count("presentations_compared")
        a, b = base, r[1]
        if a[0] != b[0] or (a[0] == "ok" and a[1] != b[1]):
            swallowed = a[2] + b[2]
            if swallowed and conflict:
                # (the open finding is about programs that DO give one variable incompatible kinds; a unification
                # failure inside a program that does not is a symptom of its own)
                mech = "order-dependent-table-kind-conflict-first-wins"
            elif swallowed:
                mech = "order-dependent-table-unification-failure-in-a-program-without-kind-conflict"
            elif a[0] == b[0] and a[3] + b[3]:
                mech = "order-dependent-table-variable-holds-scalar-and-user-type"
            elif a[0] != b[0]:
                mech = "order-dependent-success-vs-failure"
            else:
                mech = "order-dependent-table"
            rec.violation(mech,
                          f"presentation {r[0]} gives {b[:2]} but identity order gives {a[:2]} "
                          f"(swallowed unification failures: {swallowed})",
                          {"prog": prog, "presentation": r[2], "class": cls})
            break
    if mon is not None and mon.unify_asym:
        a = mon.unify_asym[0]
        rec.violation(f"unify-asymmetric-in-inference-{fam(a[0])}-{fam(a[1])}",
                      f"inference called unify({a[0]},{a[1]}) = {a[2]} but swapped arguments give {a[3]}",
                      {"prog": prog, "class": cls})
        mon.unify_asym.clear()
    return base


def hashseed_tables(progs, seeds):
    """Re-run the identity presentation of every program in fresh processes
    with different PYTHONHASHSEEDs; returns {seed: [result,...]}."""
    out = {}
    payload = json.dumps(progs)
    for s in seeds:
        env = dict(os.environ, PYTHONHASHSEED=str(s),
                   PYTHONPATH=VERIF_ROOT + os.pathsep + os.environ.get("PYTHONPATH", ""))
        p = subprocess.run([sys.executable, "-m", "vf.props.c14"], input=payload, env=env,
                           cwd=VERIF_ROOT, capture_output=True, text=True, timeout=600)
        if p.returncode != 0:
            out[s] = None
            continue
        out[s] = _last_json(p.stdout)
    return out


def run_shard(shard, rec):
    if shard["kind"] == "algebra":
        run_algebra(rec)
        return
    rng = random.Random(shard["seed"])
    mon = Mon(rec)
    mon.attach()
    progs = []
    bases = []
    classes = []
    try:
        for i in range(shard["count"]):
            conflict = (i % 5 == 4)
            prog = gen_program(rng, conflict)
            base = check_program(prog, rec, rng, shard["nperm"], conflict, mon)
            if base is None:
                continue
            rec.case(prog, nontrivial=(base[0] == "ok" and ntriv(prog, base[1])))
            rec.count("class_" + ("conflict" if conflict else "wellkinded"))
            rec.count("inference_" + base[0])
            if base[2]:
                rec.count("programs_with_swallowed_unify_failure")
            progs.append(prog)
            bases.append(base)
            classes.append(conflict)
    finally:
        mon.detach()
    # hash seeds, in fresh interpreters
    res = hashseed_tables(progs, shard["hashseeds"])
    for s, lst in res.items():
        if lst is None:
            rec.notes.append(f"hashseed subprocess {s} failed")
            continue
        for prog, base, got, conflict in zip(progs, bases, lst, classes):
            rec.count("hashseed_tables_compared")
            if got[0] != base[0] or (got[0] == "ok" and got[1] != base[1]):
                mech = ("order-dependent-table-kind-conflict-first-wins" if ((got[2] or base[2]) and conflict) else
                        "order-dependent-table-unification-failure-in-a-program-without-kind-conflict"
                        if (got[2] or base[2]) else
                        "order-dependent-table-variable-holds-scalar-and-user-type"
                        if (got[0] == base[0] and got[3] + base[3]) else "hashseed-dependent-table")
                rec.violation(mech,
                              f"PYTHONHASHSEED={s} gives {got[:2]} but seed 0 gives {base[:2]}",
                              {"prog": prog, "hashseed": s})


def replay(witness, rec):
    if "prog" in witness:
        rng = random.Random(1)
        mon = Mon(rec)
        mon.attach()
        try:
            check_program(witness["prog"], rec, rng, 40, witness.get("class") == "conflict", mon)
            pr = witness.get("presentation")
            if pr and witness.get("class") != "conflict":
                # the very presentation that was recorded (check_program draws its own permutations)
                prog = witness["prog"]
                ident = {pn: list(range(len(prog["phases"][pn]))) for pn in prog["order"]}
                r0 = infer(prog, prog["order"], ident, "frozenset")
                r = infer(prog, pr["order"], {k: list(v) for k, v in pr["perms"].items()}, pr["mode"])
                if r[:2] != r0[:2]:
                    mech = ("order-dependent-success-vs-failure" if r[0] != r0[0] else "order-dependent-table")
                    rec.violation(mech, f"recorded presentation gives {r[:2]}, identity order gives {r0[:2]}", witness)
        finally:
            mon.detach()
        rec.case(witness["prog"])
    else:
        run_algebra(rec)


if __name__ == "__main__":
    # hash-seed child: programs on stdin, results on stdout
    from vf import bootstrap
    bootstrap()
    progs = json.loads(sys.stdin.read())
    out = []
    for prog in progs:
        ident = {pn: list(range(len(prog["phases"][pn]))) for pn in prog["order"]}
        try:
            with case_alarm(30):
                r = infer(prog, prog["order"], ident, "frozenset")
        except CaseTimeout:
            r = ("timeout", "", 0)
        out.append(r)
    sys.stdout.write("\nVFJSON:" + json.dumps(out) + "\n")
