"""C06 — control-flow simplification preserves the executed leaf sequence.

Monitor shape: metamorphic (before/after) over the real simplify_ast with the
independent walker of vf.treewalk as oracle; all flag valuations per tree."""
import itertools
import json
import random

from vf.runner import CaseTimeout, case_alarm

ID = "C06"
LEVEL = "exploration"
RULE = ("trees over {Block(0-3 children), IfThen, IfThenElse, leaf, Null} with conditions "
        "from {a,b,!a,!!a,!b,True,False,!True,!False}: exhaustive up to the internal-node bound of the "
        "tier, plus seeded random trees (depth<=6, <=24 leaves, up to 4 flags); a quarter / a third of them built "
        "with one shared node object per distinct conditional; each tree is "
        "run through the real simplify_ast and both trees are walked under every flag "
        "valuation. distinct = canonical JSON of the tree; non-trivial = at least one "
        "internal node and at least one leaf")
ASSUMPTIONS = [
    "flags are opaque: a truth assignment is fixed for the whole walk (the property's own quantifier)",
    "leaves are StatementWrapper(Nop) or bare integers (what test_simplify uses), all distinct",
]
ANCHORS = ["dagrt.codegen.dag_ast:simplify_ast",
           "dagrt.codegen.dag_ast:ASTSimplifyMapper.map_Block",
           "dagrt.codegen.dag_ast:ASTSimplifyMapper.map_IfThenElse",
           "dagrt.codegen.dag_ast:ASTPostSimplifyMapper.map_IfThenElse"]
MIN_NONTRIVIAL = {"quick": 5000, "thorough": 420000}
SHARD_TIMEOUT = {"quick": 600, "thorough": 3000}

CONDS = ["a", "b", ["!", "a"], ["!", ["!", "a"]], ["!", "b"], True, False, ["!", True], ["!", False]]
CONDS_SMALL = ["a", ["!", "a"], "b", False]

NSHARDS = 16


def plan(tier, seed):
    shards = []
    for k in range(NSHARDS):
        shards.append({"kind": "exh", "k": k, "n": NSHARDS,
                       "bound": 3,
                       "bound_small": 3 if tier == "quick" else 4})
    nrand = 1500 if tier == "quick" else 150000
    for k in range(NSHARDS):
        shards.append({"kind": "rand", "seed": f"C06:{seed}:{k}", "count": nrand})
    return shards


# {{{ enumeration

def gen_children(budget, arity, conds):
    """Yield (tuple of children, used budget) for `arity` children."""
    if arity == 0:
        yield (), 0
        return
    for first, u1 in gen_child(budget, conds):
        for rest, u2 in gen_children(budget - u1, arity - 1, conds):
            yield (first,) + rest, u1 + u2


def gen_child(budget, conds):
    yield ["L"], 0
    yield ["N"], 0
    if budget > 0:
        yield from gen_tree(budget, conds)


def gen_tree(budget, conds):
    """All trees whose root is an internal node, using <= budget internal nodes."""
    if budget <= 0:
        return
    for arity in range(0, 4):
        for ch, u in gen_children(budget - 1, arity, conds):
            yield ["B"] + list(ch), u + 1
    for c in conds:
        for ch, u in gen_children(budget - 1, 1, conds):
            yield ["I", c, ch[0]], u + 1
        for ch, u in gen_children(budget - 1, 2, conds):
            yield ["E", c, ch[0], ch[1]], u + 1


def rand_tree(rng, depth, nflags):
    flags = ["a", "b", "c", "d"][:nflags]

    def cond():
        r = rng.random()
        if r < 0.08:
            return rng.choice([True, False])
        c = rng.choice(flags)
        if r < 0.14:
            c = rng.choice([True, False])      # ... negated below: !True, !!False
            c = ["!", c]
        while rng.random() < 0.3:
            c = ["!", c]
        return c

    def t(d):
        r = rng.random()
        if d <= 0 or r < 0.25:
            return ["L"] if rng.random() < 0.9 else ["N"]
        if r < 0.55:
            n = rng.choice([0, 1, 2, 2, 3, 3, 4, 5])
            return ["B"] + [t(d - 1) for _ in range(n)]
        if r < 0.8:
            return ["I", cond(), t(d - 1)]
        return ["E", cond(), t(d - 1), t(d - 1)]
    return t(depth)

# }}}


def count_nodes(tree):
    k = tree[0]
    if k in ("L", "N"):
        return (0, 1 if k == "L" else 0)
    ni, nl = 1, 0
    subs = tree[1:] if k == "B" else tree[2:]
    for s in subs:
        a, b = count_nodes(s)
        ni += a
        nl += b
    return ni, nl


def flags_of(tree, acc=None):
    if acc is None:
        acc = set()
    k = tree[0]
    if k in ("I", "E"):
        c = tree[1]
        while isinstance(c, list):
            c = c[1]
        if isinstance(c, str):
            acc.add(c)
        for s in tree[2:]:
            flags_of(s, acc)
    elif k == "B":
        for s in tree[1:]:
            flags_of(s, acc)
    return acc


def build(tree, leafmode, counter=None, share=None):
    """share: a dict -> conditionals with the same description are ONE node object wherever they occur (an AST is
    an immutable value; a caller may well hang one 'if' node into two places)."""
    from dagrt.codegen import dag_ast as A
    from dagrt.language import Nop
    from pymbolic import var
    from pymbolic.primitives import LogicalNot
    if counter is None:
        counter = itertools.count()

    def cond(c):
        if isinstance(c, bool):
            return c
        if isinstance(c, str):
            return var("<cond>" + c)
        return LogicalNot(cond(c[1]))

    k = tree[0]
    if k == "L":
        i = next(counter)
        if leafmode == "int":
            return i
        return A.StatementWrapper(Nop(id=f"s{i}"))
    if k == "N":
        return A.NullASTNode()
    if k == "B":
        return A.Block(*[build(s, leafmode, counter, share) for s in tree[1:]])
    key = None
    if share is not None:
        key = json.dumps(tree)
        if key in share:
            return share[key]
    if k == "I":
        node = A.IfThen(cond(tree[1]), build(tree[2], leafmode, counter, share))
    else:
        node = A.IfThenElse(cond(tree[1]), build(tree[2], leafmode, counter, share),
                            build(tree[3], leafmode, counter, share))
    if share is not None:
        share[key] = node
    return node


def check_tree(tree, leafmode, rec, hang_s=20.0, shared=False):
    """Returns True if evaluated."""
    from dagrt.codegen.dag_ast import simplify_ast
    from vf.treewalk import leaf_trace
    ast = build(tree, leafmode, share={} if shared else None)
    wit = {"tree": tree, "leafmode": leafmode, "shared": shared}
    flags = sorted(flags_of(tree))
    valuations = [{"<cond>" + f: b for f, b in zip(flags, bits)}
                  for bits in itertools.product([False, True], repeat=len(flags))]
    wants = [leaf_trace(ast, val) for val in valuations]      # (before the call: the input is a value)
    if shared:
        rec.count("trees_with_shared_node_objects")
    try:
        with case_alarm(hang_s):
            out = simplify_ast(ast)
    except CaseTimeout:
        # simplification of such a tree takes << 1 ms; the alarm is >1e4 x that.
        rec.violation("hang", f"simplify_ast did not return within {hang_s}s", wit)
        return True
    except Exception as e:
        rec.violation(f"exception-{type(e).__name__}",
                      f"simplify_ast raised {type(e).__name__}: {e}", wit)
        return True
    rec.count("trees")
    for val, want in zip(valuations, wants):
        if leaf_trace(ast, val) != want:
            rec.count("input_tree_runs_differently_after_the_call")     # (not judged: 'the original' is what went in)
        try:
            got = leaf_trace(out, val)
        except Exception as e:
            rec.violation("output-not-walkable",
                          f"simplified tree cannot be walked: {type(e).__name__}: {e}", wit)
            return True
        rec.count("tree_x_valuation_pairs")
        rec.count("leaf_events_compared", len(want))
        if want != got:
            rec.violation(classify(want, got),
                          f"valuation {val}: original runs {want}, simplified runs {got}",
                          dict(wit, valuation=val))
            return True
    return True


def classify(want, got):
    if sorted(want) == sorted(got):
        return "leaf-order-changed"
    if set(got) < set(want):
        return "leaf-dropped"
    if set(got) > set(want):
        return "leaf-added"
    return "leaf-set-changed"


def run_shard(shard, rec):
    if shard["kind"] == "exh":
        idx = 0
        for conds, bound in ((CONDS, shard["bound"]), (CONDS_SMALL, shard["bound_small"])):
            for tree, used in gen_tree(bound, conds):
                idx += 1
                if idx % shard["n"] != shard["k"]:
                    continue
                ni, nl = count_nodes(tree)
                leafmode = "stmt" if idx % 3 else "int"
                check_tree(tree, leafmode, rec, shared=(idx % 4 == 1))
                # the small condition pool is a subset of the full one: only
                # count what the first enumeration did not already produce
                fresh = conds is CONDS or used > shard["bound"]
                rec.case(tree, nontrivial=(ni >= 1 and nl >= 1 and fresh),
                         by_construction=True)
                rec.count("exhaustive_trees")
        rec.cmax("max_exhaustive_bound_full_conds", shard["bound"])
        rec.cmax("max_exhaustive_bound_small_conds", shard["bound_small"])
    else:
        rng = random.Random(shard["seed"])
        for _ in range(shard["count"]):
            tree = rand_tree(rng, rng.choice([2, 3, 4, 5, 6]), rng.choice([1, 2, 2, 3, 4]))
            ni, nl = count_nodes(tree)
            if nl > 24:
                continue
            check_tree(tree, rng.choice(["stmt", "int"]), rec, shared=rng.random() < 0.35)
            # only trees outside the exhaustively enumerated space count as distinct
            rec.case(tree, nontrivial=(ni > 4 and nl >= 1))
            rec.count("random_trees")


def replay(witness, rec):
    check_tree(witness["tree"], witness.get("leafmode", "stmt"), rec, shared=witness.get("shared", False))
    rec.case(witness["tree"])


def coverage_extra(tier, counters):
    return {"exhaustive_subspace": (
        f"all trees with <= {counters.get('max_exhaustive_bound_full_conds')} internal nodes over 7 "
        f"conditions and <= {counters.get('max_exhaustive_bound_small_conds')} over 4 conditions "
        f"(Block arity 0-3, children leaf/Null/internal)")}
