"""C12 — generated Fortran never leaks, double-frees or uses freed user-type storage.

Oracle: the sanitizers themselves (gfortran -fsanitize=address,undefined with
LeakSanitizer, -fcheck=bounds,do,mem,pointer, reports gated and counted), the
generated shutdown's own 'leaked reference' report, and (thorough) valgrind
memcheck on a plain build.  ASan's exit statistics and valgrind's heap summary
provide the observed allocation/free event counts."""
import random
import re

from vf import fort, ftn
from vf.runner import CaseTimeout, case_alarm

ID = "C12"
LEVEL = "exploration"
RULE = ("G_prog profile 'ftn' biased to user-type traffic (temporaries moved to and from persistent variables, "
        "overwritten temporaries, one value held under several names, last use inside a guarded block or a loop "
        "body, steps that fail or switch before later uses, yields of user-type values, never-used user-type "
        "variables, one or two user types), 1-5 run calls then shutdown; every program under ASan+UBSan+LSan, "
        "a sample again with trace=True (allocation ledger) and, in the thorough tier, under valgrind. distinct = "
        "canonical JSON of the script; non-trivial = compiled, >=2 user-type temporaries and >=1 of: guarded "
        "user-type use, failed/switched step, user-type move")
ASSUMPTIONS = [
    "the property is about run calls followed by shutdown; scripts do not use Raise (the generated code stops "
    "without shutdown there)",
    "red-zone tools miss intra-object overflows and reuse of re-allocated freed memory: a clean run is 'held on "
    "K executions'",
    "definedness as in C03: an uninitialised guard flag is only a finding when the script itself is defined",
]
ANCHORS = ["dagrt.codegen.fortran:CodeGenerator.emit_deinit_for_last_usage_of_vars",
           "dagrt.codegen.fortran:CodeGenerator.emit_user_type_move",
           "dagrt.codegen.fortran:CodeGenerator.emit_variable_deinit",
           "dagrt.codegen.fortran:CodeGenerator.emit_shutdown",
           "dagrt.codegen.analysis:var_to_last_dependent_statement_mapping"]
MIN_NONTRIVIAL = {"quick": 100, "thorough": 2730}
REQUIRED_COUNTERS = {"quick": ["programs_under_asan", "run_calls", "asan_malloc_calls_observed",
                               "release_call_sites_in_generated_code"],
                     "thorough": ["programs_under_asan", "run_calls", "asan_malloc_calls_observed",
                                  "release_call_sites_in_generated_code", "programs_under_valgrind",
                                  "valgrind_allocs_observed"]}
SHARD_TIMEOUT = {"quick": 900, "thorough": 3400}


def plan(tier, seed):
    per = 14 if tier == "quick" else 480
    return [{"seed": f"C12:{seed}:{k}", "count": per, "trace_every": 2,
             "valgrind_every": 0 if tier == "quick" else 8} for k in range(16)]


def features(script):
    f = {"guarded_ut": 0, "ends": 0, "moves": 0, "uts": set(), "loops": 0}
    ut_names = {"u", "v", "k1", "k2", "ytmp", "acc", "kinv", "ua", "va", "<state>za", "u2", "v2", "<state>y", "<p>u", "<state>w", "kb", "<p>yold"}

    def walk(ops, guarded):
        for op in ops:
            if op[0] in ("assign", "call"):
                lhs = [op[1]] if op[0] == "assign" else op[1]
                for n in lhs:
                    if n in ut_names or n.startswith("kk") or n.startswith("kw"):
                        f["uts"].add(n)
                        if guarded:
                            f["guarded_ut"] += 1
                        if op[0] == "assign" and op[3][0] == "var":
                            f["moves"] += 1
            if op[0] in ("fail", "switch", "restart"):
                f["ends"] += 1
            if op[0] == "if":
                walk(op[2], True)
                if op[4] is not None:
                    walk(op[4], True)
    for ph in script["phases"]:
        walk(ph["body"], False)
    return f


def asan_kind(err):
    m = re.search(r"AddressSanitizer: ([a-z-]+)", err)
    if m:
        return "asan-" + m.group(1)
    if "LeakSanitizer" in err:
        return "leak"
    if "runtime error:" in err and "Fortran runtime error" not in err:
        m = re.search(r"runtime error: ([a-z ]+)", err)
        return "ubsan-" + "-".join((m.group(1) if m else "error").split()[:5])
    if "Fortran runtime error" in err:
        m = re.search(r"Fortran runtime error: ([A-Za-z ]+)", err)
        msg = (m.group(1) if m else "error")
        if re.search(r"pointer|alloc|associat", msg, re.I):
            return "fortran-runtime-" + "-".join(msg.split()[:5])
        return "other-runtime-error"          # bounds etc.: C03's business
    return None


def leak_context(script, obs):
    """Which situation lets the block escape (mechanism key, from the script structure)."""
    f = features(script)
    ended = any(r.get("outcome") != "completed" or False for r in (obs.ref or []) if "crash" not in r)
    switched = False
    # a step that switched phase completes with a non-default successor; detect from ops executed is costly,
    # the structural features are what names the mechanism
    parts = []
    if f["ends"] and ended:
        parts.append("step-cut-short")
    if f["guarded_ut"]:
        parts.append("guarded-use")
    if not parts:
        parts.append("straight-line")
    return "+".join(parts)


def check_script(script, rec, do_valgrind, instrument=False):
    wit = {"script": script, "instrument": instrument}
    if instrument:
        rec.count("programs_generated_with_profiling_instrumentation")
    from vf.runner import jhash
    heap = jhash(script)[-1] in "01234567"
    wit["heap_state"] = heap
    if heap:
        # half of the programs keep their state object in dirty heap memory (nothing is nullified by accident)
        rec.count("programs_with_state_object_in_dirty_heap_memory")
    try:
        with case_alarm(240):
            obs = ftn.execute(script, env={"ASAN_OPTIONS": "detect_leaks=1:halt_on_error=1:abort_on_error=0:"
                                                           "exitcode=23:atexit=1:print_stats=1"},
                              instrument=instrument, heap_state=heap)
    except CaseTimeout:
        rec.timeout()
        return None
    # ASan's exit statistics (allocation ledger of the whole process) come after the reports
    if "AddressSanitizer exit stats:" in obs.stderr:
        head, _, stats = obs.stderr.partition("AddressSanitizer exit stats:")
        obs.stderr = head
        m1 = re.search(r"malloced .* by (\d+) calls", stats)
        m2 = re.search(r"Stats: \S+ freed by (\d+) calls", stats)
        if m1 and m2:
            rec.count("asan_malloc_calls_observed", int(m1.group(1)))
            rec.count("asan_free_calls_observed", int(m2.group(1)))
    if obs.code:
        rec.count("alloc_check_call_sites_in_generated_code", obs.code.count("call dagrt_alloc_check_"))
        rec.count("release_call_sites_in_generated_code", obs.code.count("call dagrt_deinit_"))
        rec.count("pointer_moves_in_generated_code", len(re.findall(r"lploc_\w+ => |%\w+ => ", obs.code)))
    if obs.undefined:
        rec.undef(obs.undefined)
        return None
    if obs.gen_error or obs.compile_error:
        rec.count("not_generated_or_compiled(C03 territory)")
        return None
    rec.count("programs_under_asan")
    rec.count("run_calls", len(obs.steps))
    err = obs.stderr
    blocks = len(re.findall(r"==\d+==ERROR|runtime error:", err))
    rec.count("sanitizer_report_blocks", blocks)
    kind = asan_kind(err)
    bad = False
    if kind == "other-runtime-error":
        # gfortran's bounds check stopped the program before any storage was touched ('array bound mismatch (3/0)'
        # is also what an unassociated user-type pointer looks like to it).  Run again without the bounds check:
        # if the sanitizer then reports an access to storage that is not there, it is this property's business
        rec.count("runtime_errors_reported_by_the_bounds_check")
        try:
            with case_alarm(240):
                from vf import fort as _fort
                obs2 = ftn.execute(script, flags=[f for f in _fort.SAN_FLAGS if not f.startswith("-fcheck")]
                                   + ["-fcheck=do,mem"],
                                   env={"ASAN_OPTIONS": "detect_leaks=0:halt_on_error=1:abort_on_error=0:exitcode=23"},
                                   instrument=instrument, heap_state=heap)
        except CaseTimeout:
            rec.timeout()
            return None
        kind2 = asan_kind(obs2.stderr) if not (obs2.undefined or obs2.gen_error or obs2.compile_error) else None
        # (only findings about storage that is gone or was never there: an index outside an array that exists is
        # the bounds error itself, seen a second time -- C03's business)
        if kind2 in ("asan-heap-use-after-free", "asan-SEGV", "asan-attempting-double-free"):
            rec.violation(f"sanitizer:{kind2}:once-the-bounds-check-is-off", obs2.stderr[-1800:], wit)
            return False
        rec.count("runtime_errors_unrelated_to_storage(C03 territory)")
        return None
    if kind:
        mech = kind
        if kind == "leak":
            mech = "leak:" + leak_context(script, obs)
        rec.violation(f"sanitizer:{mech}", err[-1800:], wit)
        bad = True
    m = re.findall(r"leaked reference in (\S+)", err)
    if m:
        rec.violation("shutdown-reports-leaked-reference", f"shutdown: leaked reference in {sorted(set(m))}", wit)
        bad = True
    if not bad and (obs.rc != 0 or not obs.done):
        rec.violation("abnormal-exit-under-sanitizer", f"rc={obs.rc} done={obs.done} stderr={err[-600:]}", wit)
        bad = True
    if do_valgrind and fort.have_valgrind():
        try:
            with case_alarm(400):
                vg = ftn.execute(script, flags=["-O0", "-g"], valgrind=True)
        except CaseTimeout:
            vg = None
        if vg is not None and vg.rc is not None and not vg.compile_error:
            rec.count("programs_under_valgrind")
            verr = vg.stderr
            mm = re.search(r"total heap usage: ([\d,]+) allocs, ([\d,]+) frees", verr)
            if mm:
                rec.count("valgrind_allocs_observed", int(mm.group(1).replace(",", "")))
                rec.count("valgrind_frees_observed", int(mm.group(2).replace(",", "")))
            if "Invalid read" in verr or "Invalid write" in verr:
                rec.violation("valgrind:invalid-access", verr[-1500:], wit)
                bad = True
            elif re.search(r"definitely lost: [1-9][\d,]* bytes", verr) and not bad:
                rec.violation("valgrind:definitely-lost:" + leak_context(script, obs), verr[-1500:], wit)
                bad = True
            elif "uninitialised value" in verr and not bad:
                # only uses inside the generated module count: the driver's dump prints every persistent scalar,
                # also those the method has not assigned yet (their phase has not run), which is the harness
                # reading uninitialised storage, not the generated code
                blocks = re.split(r"\n==\d+== \n", verr)
                mine = [b for b in blocks if "uninitialised value" in b and "vfmod.f90" in b]
                if mine:
                    rec.violation("valgrind:uninitialised-value", mine[0][-1500:], wit)
                    bad = True
                else:
                    rec.count("valgrind_uninitialised_only_in_driver_dump")
    return not bad


def run_shard(shard, rec):
    if not fort.have_gfortran():
        rec.notes.append("gfortran missing")
        return
    rng = random.Random(shard["seed"])
    for i in range(shard["count"]):
        g = ftn.FGen(rng, memory_bias=True, two_types=rng.random() < 0.4, max_ops=12,
                     struct_type=rng.random() < 0.3)
        script = g.script()
        # every fourth module is generated with the profiling instrumentation switched on (another configuration
        # of the same generator: its own exit paths and timers around every phase)
        ok = check_script(script, rec, shard["valgrind_every"] and i % shard["valgrind_every"] == 0,
                          instrument=(i % 4 == 3))
        f = features(script)
        nt = ok is not None and len(f["uts"]) >= 2 and (f["guarded_ut"] or f["ends"] or f["moves"])
        rec.case(script, nontrivial=bool(nt), sample={"features": {k: (sorted(v) if isinstance(v, set) else v)
                                                                   for k, v in f.items()}, "script": script})


def replay(witness, rec):
    check_script(witness["script"], rec, True, instrument=bool(witness.get("instrument")))
    rec.case(witness["script"])
