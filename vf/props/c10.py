"""C10 — verify_code accepts exactly the well-formed methods.

Monitor: reference-model (R_graph: independent Kahn-style checker) against the
outcome of the real verify_code; accepted methods are additionally pushed
through the real interpreter and both code generators, watching for
dependency-resolution failures."""
import itertools
import random

from vf.runner import CaseTimeout, case_alarm

ID = "C10"
LEVEL = "exploration"
RULE = ("methods described as {phase: statements with explicit ids and depends_on}; exhaustive: every "
        "assignment of dependency sets over {all same-phase ids incl. self, one dangling id, one id of "
        "another phase} for 1-3 statements (thorough: plus all plain digraphs on 4 nodes), crossed with "
        "switch target {none, existing, missing} and <cond> flag writers {0,1,2 same phase, 1+1 different "
        "phases}; random: 5-12 node graphs with planted long cycles, a fifth of them filed under keys that differ "
        "from the names the phase objects carry (or one phase object under two keys). distinct = canonical JSON; "
        "non-trivial = at least one dependency edge or a switch/flag statement")
ASSUMPTIONS = [
    "statement ids are unique within a phase; different phases may re-use ids (the builder's ids are per phase)",
    "ill-formedness classes are exactly the four the property lists",
]
ANCHORS = ["dagrt.codegen.analysis:verify_code",
           "dagrt.codegen.analysis:verify_no_circular_dependencies",
           "dagrt.codegen.analysis:verify_all_dependencies_exist",
           "dagrt.codegen.analysis:verify_switch_phases",
           "dagrt.codegen.analysis:verify_single_definition_cond_rule"]
MIN_NONTRIVIAL = {"quick": 20000, "thorough": 1400000}
REQUIRED_COUNTERS = {"quick": ["accepted", "rejected", "downstream_interp_runs", "downstream_pygen_runs"],
                     "thorough": ["accepted", "rejected", "downstream_interp_runs", "downstream_pygen_runs",
                                  "downstream_fortran_runs"]}
SHARD_TIMEOUT = {"quick": 600, "thorough": 3000}
NSHARDS = 16
# what counts as a dependency-resolution failure downstream (anything else an
# accepted method trips over is outside what C10 states and only counted)
DEP_FAILURES = (KeyError, RecursionError, IndexError, AssertionError)


def plan(tier, seed):
    sh = []
    for k in range(NSHARDS):
        sh.append({"kind": "exh", "k": k, "n": NSHARDS, "tier": tier})
    nrand = 600 if tier == "quick" else 120000
    for k in range(NSHARDS):
        sh.append({"kind": "rand", "seed": f"C10:{seed}:{k}", "count": nrand, "tier": tier})
    return sh


# {{{ reference model

def r_graph(desc):
    """Returns sorted list of violated rules (empty = well-formed)."""
    bad = set()
    phases = desc["phases"]
    for pname, ph in phases.items():
        ids = [s["id"] for s in ph["stmts"]]
        idset = set(ids)
        other = {s["id"] for q, p2 in phases.items() if q != pname for s in p2["stmts"]}
        indeg_edges = {}
        for s in ph["stmts"]:
            for d in s["deps"]:
                if d not in idset:
                    bad.add("cross-phase-dep" if d in other else "dangling-dep")
            indeg_edges[s["id"]] = [d for d in s["deps"] if d in idset]
        # Kahn on the in-phase part
        remaining = dict(indeg_edges)
        progress = True
        while progress and remaining:
            progress = False
            for n in list(remaining):
                if all(d not in remaining for d in remaining[n]):
                    del remaining[n]
                    progress = True
        if remaining:
            bad.add("cycle")
        flags = {}
        for s in ph["stmts"]:
            if s["kind"] == "switch" and s["target"] not in phases and s["target"] not in desc.get("alias", {}):
                bad.add("switch-target")
            if s["kind"] == "condassign":
                flags[s["flag"]] = flags.get(s["flag"], 0) + 1
        if any(v > 1 for v in flags.values()):
            bad.add("cond-redefined")
    return sorted(bad)

# }}}


def build(desc):
    from dagrt.language import (Assign, DAGCode, ExecutionPhase, Nop, SwitchPhase,
                                YieldState)
    from pymbolic import var
    from pymbolic.primitives import Comparison
    phases = {}
    container = desc.get("container", "list")
    for pname, ph in desc["phases"].items():
        stmts = []
        for s in ph["stmts"]:
            k = s["kind"]
            kw = dict(id=s["id"], depends_on=frozenset(s["deps"]))
            if k == "nop":
                # a bare Nop has no `condition` attribute, which the interpreter
                # reads; that is not a dependency matter (see C04), so give it one
                st = Nop(condition=True, **kw)
            elif k == "assign":
                st = Assign(s.get("var", "x_" + s["id"]), (), 1.5, **kw)
            elif k == "switch":
                st = SwitchPhase(s["target"], **kw)
            elif k == "condassign":
                # ("off": the assignment is disabled with a constant-false guard; it is an assignment all the same)
                st = Assign("<cond>" + s["flag"], (), Comparison(var("<t>"), "<", 3),
                            condition=False if s.get("off") else True, **kw)
            elif k == "yield":
                st = YieldState(expression=var("<t>"), component_id="c", time=var("<t>"),
                                time_id="fin", **kw)
            else:
                raise ValueError(k)
            stmts.append(st)
        if container == "frozenset":
            stmts = frozenset(stmts)
        elif container == "tuple":
            stmts = tuple(stmts)
        # ("names": the name the phase object carries differs from the key it is filed under -- the mapping's keys
        # are what the method's switches and successors refer to)
        phases[pname] = ExecutionPhase(desc.get("names", {}).get(pname, pname), ph["next"], stmts)
    for newkey, oldkey in desc.get("alias", {}).items():
        phases[newkey] = phases[oldkey]          # one phase object filed under two keys
    return DAGCode(phases, desc["initial"])


def nontrivial(desc):
    for ph in desc["phases"].values():
        for s in ph["stmts"]:
            if s["deps"] or s["kind"] in ("switch", "condassign"):
                return True
    return False


def check(desc, rec, downstream=True, fortran=False, hang_s=20.0):
    from dagrt.codegen.analysis import CodeGenerationError, verify_code
    want = r_graph(desc)
    tag = "+".join(want) if want else "wellformed"
    dag = build(desc)
    outcome = None
    try:
        with case_alarm(hang_s):
            verify_code(dag)
        outcome = "accept"
    except CaseTimeout:
        # verification of a <=12 node graph takes tens of microseconds
        rec.violation(f"hang-on-{tag}", f"verify_code did not return within {hang_s}s", desc)
        return
    except CodeGenerationError as e:
        outcome = "reject"
        errs = getattr(e, "errors", None)
        if not errs:
            rec.violation("reject-without-message",
                          "CodeGenerationError carries no message", desc)
            return
        try:
            str(e)
        except Exception as e2:
            rec.violation("error-not-printable", f"str(error) raised {e2!r}", desc)
            return
    except Exception as e:
        rec.violation(f"wrong-exception-{type(e).__name__}-on-{tag}",
                      f"verify_code raised {type(e).__name__}: {e} (expected: "
                      f"{'accept' if not want else 'CodeGenerationError for ' + tag})", desc)
        return
    rec.count("accepted" if outcome == "accept" else "rejected")
    rec.count("verdicts_compared")
    if outcome == "accept" and want:
        rec.violation(f"accepts-illformed-{tag}",
                      f"verify_code accepted a method that is ill-formed ({tag})", desc)
        return
    if outcome == "reject" and not want:
        rec.violation("rejects-wellformed",
                      f"verify_code rejected a well-formed method: {errs}", desc)
        return
    if outcome != "accept" or not downstream:
        return
    # ---- accepted: downstream consumers must not trip over dependencies
    from itertools import islice
    from dagrt.exec_numpy import FailStepException, NumpyInterpreter, TransitionEvent
    try:
        with case_alarm(hang_s):
            for pname in dag.phases:
                interp = NumpyInterpreter(dag, {})
                interp.set_up(0.0, 0.5, {})
                interp.next_phase = pname
                try:
                    ev = list(islice(interp.run_single_step(), 200))
                except (FailStepException, TransitionEvent):
                    pass
                executed = set(interp.exec_controller.executed_ids)
                rec.count("downstream_interp_runs")
            # ... and TWO interpreters on the same description, alive at the same time, their steps interleaved
            # event by event (a step is a generator: it is suspended at every yield)
            solo = NumpyInterpreter(dag, {})
            solo.set_up(0.0, 0.5, {})
            try:
                list(islice(solo.run_single_step(), 200))
            except (FailStepException, TransitionEvent):
                pass
            want_ids = set(solo.exec_controller.executed_ids)
            pair = [NumpyInterpreter(dag, {}), NumpyInterpreter(dag, {})]
            gens = []
            for it in pair:
                it.set_up(0.0, 0.5, {})
                gens.append(it.run_single_step())
            live = [True, True]
            for _ in range(400):
                if not any(live):
                    break
                for k in (0, 1):
                    if live[k]:
                        try:
                            next(gens[k])
                        except (StopIteration, FailStepException, TransitionEvent):
                            live[k] = False
            rec.count("downstream_interleaved_interpreter_pairs")
            for k in (0, 1):
                got_ids = set(pair[k].exec_controller.executed_ids)
                if not live[k] and got_ids != want_ids:
                    rec.violation("downstream-interleaved-interpreters-interfere",
                                  f"interpreter {k} of an interleaved pair executed {sorted(got_ids)}, alone it "
                                  f"executes {sorted(want_ids)}", desc)
                    return
            if len(dag.phases) > 1:
                # ... and ONE interpreter that visits every phase in turn, there and back (what a run does)
                interp = NumpyInterpreter(dag, {})
                interp.set_up(0.0, 0.5, {})
                names = sorted(dag.phases)
                for pname in names + names[::-1]:
                    interp.next_phase = pname
                    try:
                        ev = list(islice(interp.run_single_step(), 200))
                    except (FailStepException, TransitionEvent):
                        pass
                    foreign = set(interp.exec_controller.executed_ids) - set(dag.phases[pname].id_to_stmt)
                    rec.count("downstream_interp_phase_visits_one_interpreter")
                    if foreign:
                        rec.violation("downstream-interp-ran-statement-of-another-phase",
                                      f"phase {pname}: executed ids {sorted(foreign)} are not statements of it", desc)
                        return
    except CaseTimeout:
        rec.violation("downstream-interp-hang", "interpreter step on accepted method hung", desc)
        return
    except DEP_FAILURES as e:
        rec.violation(f"downstream-interp-{type(e).__name__}",
                      f"interpreter failed on accepted method: {type(e).__name__}: {e}", desc)
        return
    except Exception as e:
        rec.count("downstream_other_exception_" + type(e).__name__)
    from dagrt.codegen import PythonCodeGenerator
    try:
        with case_alarm(hang_s):
            text = PythonCodeGenerator(class_name="M")(dag)
            rec.count("downstream_pygen_runs")
            # dependency resolution in the generator: an assignment is emitted after the assignments it
            # (transitively through any statement) depends on
            import re
            for pname, ph in desc["phases"].items():
                m = re.search(r"def phase_%s\(self\):(.*?)(?=\n    def |\Z)" % re.escape(pname), text, re.S)
                if not m:
                    continue
                body = m.group(1)
                byid = {st["id"]: st for st in ph["stmts"]}
                pos = {}
                for st in ph["stmts"]:
                    if st["kind"] == "assign" and "var" not in st:
                        mm = re.search(r"\blocalx_%s = " % re.escape(st["id"]), body)
                        if mm:
                            pos[st["id"]] = mm.start()

                def anc(x, seen):
                    for d in byid[x]["deps"]:
                        if d in byid and d not in seen:
                            seen.add(d)
                            anc(d, seen)
                    return seen
                for x in pos:
                    for d in anc(x, set()):
                        if d in pos:
                            rec.count("downstream_pygen_emission_orders_checked")
                            if pos[d] > pos[x]:
                                rec.violation("downstream-pygen-emits-statement-before-its-dependency",
                                              f"phase {pname}: [{x}] is emitted before [{d}], on which it depends", desc)
                                return
    except CaseTimeout:
        rec.violation("downstream-pygen-hang", "Python generator hung on accepted method", desc)
        return
    except DEP_FAILURES as e:
        rec.violation(f"downstream-pygen-{type(e).__name__}",
                      f"Python generator failed on accepted method: {type(e).__name__}: {e}", desc)
        return
    except Exception as e:
        rec.count("downstream_other_exception_" + type(e).__name__)
    if fortran:
        import dagrt.codegen.fortran as f
        try:
            with case_alarm(60):
                f.CodeGenerator("m", user_type_map={
                    "c": f.ArrayType((3,), f.BuiltinType("real (kind=8)"), index_vars="i")})(dag)
                rec.count("downstream_fortran_runs")
        except CaseTimeout:
            rec.timeout()
        except DEP_FAILURES as e:
            rec.violation(f"downstream-fortran-{type(e).__name__}",
                          f"Fortran generator failed on accepted method: {type(e).__name__}: {e}", desc)
        except Exception as e:
            rec.count("downstream_other_exception_" + type(e).__name__)


# {{{ enumeration

def subsets(xs):
    for r in range(len(xs) + 1):
        yield from itertools.combinations(xs, r)


def exhaustive(tier):
    """Yield descriptions."""
    q = {"stmts": [{"id": "q0", "kind": "nop", "deps": []}], "next": "p"}
    for n in (1, 2, 3):
        ids = [f"s{i}" for i in range(n)]
        targets = ids + ["zz", "q0"]
        all_sub = list(subsets(targets))
        for combo in itertools.product(all_sub, repeat=n):
            base = [{"id": ids[i], "kind": "nop" if i else "assign", "deps": list(combo[i])}
                    for i in range(n)]
            yield {"phases": {"p": {"stmts": base, "next": "p"}, "q": q}, "initial": "p"}
    # extras crossed with a reduced dependency space
    sw = [None, "q", "nowhere"]
    condw = ["0", "1", "2same", "1+1"]
    for n in (1, 2):
        ids = [f"s{i}" for i in range(n)]
        targets = ids + ["zz", "q0"]
        all_sub = list(subsets(targets))
        for combo in itertools.product(all_sub, repeat=n):
            for s, c in itertools.product(sw, condw):
                if s is None and c == "0":
                    continue
                base = [{"id": ids[i], "kind": "nop", "deps": list(combo[i])} for i in range(n)]
                qst = [{"id": "q0", "kind": "nop", "deps": []}]
                if s is not None:
                    base.append({"id": "sw", "kind": "switch", "target": s, "deps": [ids[-1]]})
                if c in ("1", "2same", "1+1"):
                    base.append({"id": "c1", "kind": "condassign", "flag": "f", "deps": []})
                if c == "2same":
                    base.append({"id": "c2", "kind": "condassign", "flag": "f", "deps": ["c1"]})
                if c == "1+1":
                    qst.append({"id": "c2", "kind": "condassign", "flag": "f", "deps": []})
                yield {"phases": {"p": {"stmts": base, "next": "p"},
                                  "q": {"stmts": qst, "next": "p"}}, "initial": "p"}
    # ids are only unique per phase: another phase re-uses this phase's ids (both phase orders)
    for n in (1, 2, 3):
        ids = [f"s{i}" for i in range(n)]
        all_sub = list(subsets(ids + ["zz"]))
        for combo in itertools.product(all_sub, repeat=n):
            base = [{"id": ids[i], "kind": "nop", "deps": list(combo[i])} for i in range(n)]
            for shared in (ids[:1], ids):
                other = {"stmts": [{"id": x, "kind": "nop", "deps": []} for x in shared], "next": "p"}
                yield {"phases": {"p": {"stmts": base, "next": "p"}, "q": other}, "initial": "p"}
                yield {"phases": {"q": other, "p": {"stmts": base, "next": "p"}}, "initial": "p"}
    # single phase only (no other phase to pool ids with)
    for n in (1, 2, 3):
        ids = [f"s{i}" for i in range(n)]
        all_sub = list(subsets(ids + ["zz"]))
        for combo in itertools.product(all_sub, repeat=n):
            base = [{"id": ids[i], "kind": "nop", "deps": list(combo[i])} for i in range(n)]
            yield {"phases": {"p": {"stmts": base, "next": "p"}}, "initial": "p"}
    if tier == "thorough":
        ids = ["a", "b", "c", "d"]
        pairs = [(x, y) for x in ids for y in ids]   # incl. self loops: 16 bits
        for mask in range(1 << 16):
            deps = {i: [] for i in ids}
            for bit, (x, y) in enumerate(pairs):
                if mask >> bit & 1:
                    deps[x].append(y)
            base = [{"id": i, "kind": "nop", "deps": deps[i]} for i in ids]
            yield {"phases": {"p": {"stmts": base, "next": "p"}}, "initial": "p"}


def missing_target(rng, pn):
    """A switch target that names no phase: unrelated, or a near miss of an existing name (part of it, the
    empty name, another spelling)."""
    n = rng.choice(pn)
    cands = ["ghost", "", n[:max(1, len(n) // 2)], n[1:], n[1:-1], n.upper(), n.capitalize(), n + " ", n + "_0",
             " " + n, ", ".join(pn), "'" + n + "'"]
    cands = [c for c in cands if c not in pn]
    return rng.choice(cands)


def rand_desc(rng):
    nph = rng.choice([1, 1, 2, 3])
    pn = ["p", "q", "r"][:nph] if rng.random() < 0.5 else rng.sample(["primary", "bootstrap", "init", "stage_2"], nph)
    phases = {}
    allids = {}
    share = rng.random() < 0.4          # ids are per-phase namespaces: phases may re-use each other's ids
    for p in pn:
        n = rng.randint(3, 12)
        allids[p] = [(f"s{i}" if share else f"{p}{i}") for i in range(n)]
    mode = rng.choice(["dag", "dag", "cycle", "dangling", "cross", "mixed"])
    for p in pn:
        ids = allids[p]
        order = ids[:]
        rng.shuffle(order)
        pos = {x: i for i, x in enumerate(order)}
        stmts = []
        dens = rng.choice([0.1, 0.25, 0.5])
        for x in ids:
            deps = [y for y in ids if pos[y] < pos[x] and rng.random() < dens]
            kind = rng.choice(["nop", "nop", "assign", "yield"])
            st = {"id": x, "kind": kind, "deps": deps}
            stmts.append(st)
        phases[p] = {"stmts": stmts, "next": rng.choice(pn)}
    if share and nph > 1 and rng.random() < 0.5:
        # every phase ends in a statement of the same name that gathers its loose ends (the phases then have the
        # same root, reached through different statements)
        for p in pn:
            used = {d for st in phases[p]["stmts"] for d in st["deps"]}
            loose = [st["id"] for st in phases[p]["stmts"] if st["id"] not in used]
            phases[p]["stmts"].append({"id": "finish", "kind": "nop", "deps": loose})
            allids[p].append("finish")
    if mode in ("cycle", "mixed"):
        # plant a cycle of random length along a path
        p = rng.choice(pn)
        ids = allids[p]
        k = rng.randint(1, min(len(ids), 8))
        cyc = rng.sample(ids, k)
        byid = {s["id"]: s for s in phases[p]["stmts"]}
        for a, b in zip(cyc, cyc[1:] + cyc[:1]):
            if b not in byid[a]["deps"]:
                byid[a]["deps"].append(b)
    if mode in ("dangling", "mixed") and rng.random() < 0.8:
        p = rng.choice(pn)
        rng.choice(phases[p]["stmts"])["deps"].append("nonexistent")
    if mode in ("cross", "mixed") and nph > 1:
        p, q = rng.sample(pn, 2)
        foreign = [x for x in allids[q] if x not in allids[p]]
        if foreign:
            rng.choice(phases[p]["stmts"])["deps"].append(rng.choice(foreign))
    targets = list(pn)
    if rng.random() < 0.25:
        # a phase without any statement (an idle / placeholder phase): it exists, so it is a legal switch target
        idle = rng.choice(["idle", "empty", "wait"])
        phases[idle] = {"stmts": [], "next": rng.choice(pn)}
        allids[idle] = []
        targets += [idle, idle]
    extra = {}
    ghosts = []
    if rng.random() < 0.2:
        # phases filed under keys other than the names the phase objects carry: re-keyed ('rk_' + name), names
        # exchanged between two phases, or one phase object under a second key
        c = rng.random()
        if c < 0.4:
            extra["names"] = {p: "name_of_" + p for p in pn}
            ghosts = ["name_of_" + p for p in pn]           # carried by a phase object, but no key: not a target
        elif c < 0.6 and nph > 1:
            extra["names"] = {pn[0]: pn[1], pn[1]: pn[0]}
        elif c < 0.8:
            extra["names"] = {p: "step" for p in pn}        # every phase object carries the same name
            ghosts = ["step"]
        else:
            extra["alias"] = {"again": rng.choice(pn)}
            targets += ["again", "again"]
    if rng.random() < (0.7 if extra else 0.4):
        p = rng.choice(pn)
        last = phases[p]["stmts"][-1]["id"]
        phases[p]["stmts"].append({"id": p + "sw", "kind": "switch",
                                   "target": rng.choice(targets + [missing_target(rng, pn)] + ghosts + ghosts),
                                   "deps": [last]})
    if rng.random() < 0.4:
        p = rng.choice(pn)
        nw = rng.choice([1, 1, 2])
        prev = []
        for i in range(nw):
            phases[p]["stmts"].append({"id": f"{p}cw{i}", "kind": "condassign", "flag": "g",
                                       "deps": list(prev), "off": rng.random() < 0.35})
            prev = [f"{p}cw{i}"]
        if nph > 1 and rng.random() < 0.5:
            q = [x for x in pn if x != p][0]
            phases[q]["stmts"].append({"id": f"{q}cw", "kind": "condassign", "flag": "g", "deps": []})
    for p in pn:
        rng.shuffle(phases[p]["stmts"])
    return dict({"phases": phases, "initial": pn[0],
                 "container": rng.choice(["list", "frozenset", "tuple"])}, **extra)

# }}}


def run_shard(shard, rec):
    tier = shard["tier"]
    if shard["kind"] == "exh":
        for idx, desc in enumerate(exhaustive(tier)):
            if idx % shard["n"] != shard["k"]:
                continue
            ds = (idx // shard["n"]) % (8 if tier == "quick" else 3) == 0
            fo = tier == "thorough" and (idx // shard["n"]) % 60 == 0
            check(desc, rec, downstream=ds, fortran=fo)
            rec.case(desc, nontrivial=nontrivial(desc), by_construction=True)
            rec.count("exhaustive_methods")
    else:
        rng = random.Random(shard["seed"])
        for i in range(shard["count"]):
            desc = rand_desc(rng)
            check(desc, rec, downstream=True, fortran=(tier == "thorough" and i % 10 == 0))
            rec.case(desc, nontrivial=nontrivial(desc))
            rec.count("random_methods")


def replay(witness, rec):
    check(witness, rec, downstream=True, fortran=True)
    rec.case(witness)


def coverage_extra(tier, counters):
    return {"exhaustive_subspace": "all dependency-set assignments over {same-phase ids incl. self, dangling, "
            "cross-phase} for 1-3 statements; x switch target x flag writers for 1-2 statements"
            + ("; all 65536 digraphs on 4 nodes" if tier == "thorough" else "")}
