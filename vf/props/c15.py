"""C15 — generated source text is a pure function of the method description.

Offline checker over recorded digests: every program of a corpus is generated
(Python and Fortran text) and interpreted in fresh subprocesses under several
PYTHONHASHSEEDs, with permuted / re-containered statement sets, permuted phase
dict order and with 0-3 unrelated programs generated earlier in the same
process; the parent compares SHA-256 digests column-wise and stores a unified
diff as witness on mismatch."""
import difflib
import hashlib
import json
import os
import random
import subprocess
import sys

from vf import VERIF_ROOT, backends, ftn, prog
from vf.runner import CaseTimeout, case_alarm

ID = "C15"
LEVEL = "exploration"
RULE = ("corpus of G_prog scripts: profile 'py' (Python text, interpreter events) and profile 'ftn' biased to "
        "user-type traffic (Fortran text; statements that are the last use of several user-type temporaries, "
        "self-dependent statements reading several variables, many independent sinks, several phases); every "
        "program is generated under N PYTHONHASHSEEDs in separate processes x {identity, permuted list, tuple, set, "
        "frozenset statement containers, permuted phase-dict order} x {0-3 unrelated programs generated earlier by "
        "separate generator objects in the same process}. distinct = canonical JSON of the script; non-trivial = "
        ">=6 statements and at least 2 variants produced a digest")
ASSUMPTIONS = [
    "the user-type map is passed as the same configuration (explicit index_vars): ArrayType's process-global "
    "index-variable counter makes a freshly constructed default type map a different configuration",
    "interpreter 'observable results' = the event list (values rounded to 12 significant digits) and the "
    "persistent store after each step",
]
ANCHORS = []
# (generation happens in child processes; these are informational here)
ANCHORS_INFO = ["dagrt.codegen.fortran:CodeGenerator.emit_deinit_for_last_usage_of_vars",
           "dagrt.codegen.transform:SelfDependencyEliminator.map_statement",
           "dagrt.codegen.dag_ast:create_ast_from_phase", "dagrt.codegen.python:CodeGenerator.__call__"]
MIN_NONTRIVIAL = {"quick": 100, "thorough": 1000}
REQUIRED_COUNTERS = {"quick": ["digests_compared_python", "digests_compared_fortran", "digests_compared_interpreter",
                               "hashseed_processes"],
                     "thorough": ["digests_compared_python", "digests_compared_fortran",
                                  "digests_compared_interpreter", "hashseed_processes"]}
SHARD_TIMEOUT = {"quick": 900, "thorough": 3400}

VARIANTS = ["identity", "list-perm", "tuple", "set", "frozenset", "phase-order", "after-1-other", "after-3-others",
            "same-dag-after-other-configurations"]


def _last_json(stdout):
    """The child prints its result on a marked last line (anything the code under test prints comes before)."""
    for ln in reversed(stdout.splitlines()):
        if ln.startswith("VFJSON:"):
            return json.loads(ln[7:])
    raise ValueError("child produced no result line")


def plan(tier, seed):
    per = 10 if tier == "quick" else 90
    hs = [0, 1, 2, 3] if tier == "quick" else [0, 1, 2, 3, 4, 5, 6, 7]
    return [{"seed": f"C15:{seed}:{k}", "count": per, "hashseeds": hs} for k in range(16)]


def sha(s):
    return hashlib.sha256(s.encode()).hexdigest()[:20]


def gen_corpus(rng, n):
    corpus = []
    for i in range(n):
        if i % 10 == 8:
            # a description that holds a numpy array constant (hand-built, see npconst_dag)
            m = rng.choice([2, 3, 4])
            corpus.append({"kind": "npconst", "script": {"values": [rng.choice([1.0, 2.0, -0.5, 3.25]) for _ in range(m)],
                                                         "k": rng.randrange(m)}})
        elif i % 2 == 0:
            corpus.append({"kind": "py", "script": prog.Gen(rng, profile="py").script()})
        else:
            g = ftn.FGen(rng, memory_bias=True, two_types=rng.random() < 0.7, max_ops=12, neq=True,
                         struct_type=rng.random() < 0.2)
            corpus.append({"kind": "ftn", "script": g.script()})
    return corpus


def npconst_dag(spec):
    """A method whose description holds a numpy array CONSTANT that is copied into a variable, one element of which
    is then assigned: 'w <- [1, 2, 3]; w[k] <- w[k] + 10*<dt>; <state>s <- w[0] + w[1] + ...; yield w'."""
    import numpy as np
    from dagrt.language import CodeBuilder, DAGCode
    from pymbolic import var
    vals = np.array(spec["values"], dtype=float)
    with CodeBuilder("main") as cb:
        cb("w", vals)
        cb("w[%d]" % spec["k"], "w[%d] + 10*<dt>" % spec["k"])
        cb("<state>s", " + ".join("w[%d]" % i for i in range(len(vals))))
        cb.yield_state(var("w"), "w", var("<t>"), "final")
        cb("<t>", "<t> + <dt>")
    return DAGCode.from_phases_list([cb.as_execution_phase("main")], "main")


def produce_npconst(item, variant):
    from dagrt.codegen import PythonCodeGenerator
    from dagrt.exec_numpy import NumpyInterpreter
    spec = item["script"]
    dag = npconst_dag(spec)

    def interp():
        it = NumpyInterpreter(dag, {})
        it.set_up(0.0, 0.5, {"s": 0.0})
        ev = []
        for e in it.run(max_steps=2):
            if type(e).__name__ == "StateComputed":
                ev.append([float(x) for x in e.state_component])
        return ev
    out = {"python": None, "fortran": None, "fortran_instrumented": None, "interp": None}
    if variant == "same-dag-after-other-configurations":
        # the same description object has been RUN before (and lowered by another generator object)
        try:
            interp()
            PythonCodeGenerator(class_name="Earlier")(dag)
        except Exception:
            pass
    try:
        out["python"] = PythonCodeGenerator(class_name="M")(dag)
    except Exception as ex:
        out["python"] = f"EXC {type(ex).__name__}"
    try:
        out["interp"] = json.dumps(interp())
    except Exception as ex:
        out["interp"] = f"EXC {type(ex).__name__}"
    return out


def variant_dag(script, variant, rng):
    from dagrt.language import DAGCode, ExecutionPhase
    dag = prog.build(script)
    if variant in ("identity", "after-1-other", "after-3-others"):
        return dag
    phases = {}
    names = list(dag.phases)
    if variant == "phase-order":
        rng.shuffle(names)
    for n in names:
        ph = dag.phases[n]
        stmts = sorted(ph.statements, key=lambda s: s.id)
        if variant == "list-perm":
            rng.shuffle(stmts)
            cont = list(stmts)
        elif variant == "tuple":
            rng.shuffle(stmts)
            cont = tuple(stmts)
        elif variant == "set":
            cont = set(stmts)
        elif variant == "frozenset":
            cont = frozenset(reversed(stmts))
        else:
            cont = list(stmts)
        phases[n] = ExecutionPhase(n, ph.next_phase, cont)
    return DAGCode(phases, dag.initial_phase)


def produce(item, variant, rng, others):
    """-> {"python": text|None, "fortran": text|None, "interp": text|None}"""
    from dagrt.codegen import PythonCodeGenerator
    if item["kind"] == "npconst":
        return produce_npconst(item, variant)
    script = item["script"]
    out = {"python": None, "fortran": None, "fortran_instrumented": None, "interp": None}
    nother = {"after-1-other": 1, "after-3-others": 3}.get(variant, 0)
    for k in range(nother):
        o = others[k % len(others)]
        try:
            if o["kind"] == "npconst":
                PythonCodeGenerator(class_name="Other")(npconst_dag(o["script"]))
                continue
            PythonCodeGenerator(class_name="Other")(prog.build(o["script"]))
            if o["kind"] == "ftn":
                ftn.generate(prog.build(o["script"]), o["script"], module="other")
        except Exception:
            pass
    dag = variant_dag(script, variant, rng)
    if variant == "same-dag-after-other-configurations":
        # the SAME DAG object was handed to differently configured generators before (instrumented Fortran
        # with state-update hooks, a Python generator with another class name, the interpreter)
        try:
            PythonCodeGenerator(class_name="Earlier")(dag)
            if item["kind"] == "ftn":
                ftn.generate(dag, script, module="earlier", hooks=True)
        except Exception:
            # the other configuration does not take this program (e.g. a built-in without Fortran support):
            # nothing was handed out earlier, the variant degenerates to the identity
            pass
    try:
        out["python"] = PythonCodeGenerator(class_name="M")(dag)
    except Exception as ex:
        out["python"] = f"EXC {type(ex).__name__}"
    if item["kind"] == "ftn":
        try:
            out["fortran"] = ftn.generate(dag, script).code
        except Exception as ex:
            out["fortran"] = f"EXC {type(ex).__name__}: {str(ex)[:80]}"
        try:
            # a second configuration of the generator (profiling instrumentation on)
            out["fortran_instrumented"] = ftn.generate(dag, script, instrument=True).code
        except Exception as ex:
            out["fortran_instrumented"] = f"EXC {type(ex).__name__}: {str(ex)[:80]}"
        funcs = ftn.python_functions(script)
    else:
        funcs = prog.python_functions(script)
    try:
        if item["kind"] == "py":
            # (the alias-sensitive class of section 1: the interpreter's result legitimately depends on the
            # schedule, i.e. on set iteration order)
            try:
                rs, _ = backends.rseq_result(script)
                if rs.alias_sensitive:
                    out["interp"] = "ALIAS-SENSITIVE (not compared)"
                    return out
            except Exception:
                pass
        r = backends.run_interpreter(dag, script, funcs)
        ev = [[_round(x) for x in e] for e in r.events]
        st = [({k: _round(v) for k, v in sorted(s.items())}, n) for s, n in r.persist_after]
        out["interp"] = json.dumps([ev, st, r.crash and r.crash[0]], default=repr)
    except Exception as ex:
        out["interp"] = f"EXC {type(ex).__name__}"
    return out


def _round(v):
    import numpy as np
    if isinstance(v, np.ndarray):
        return [_round(x) for x in v.tolist()]
    if isinstance(v, (bool, np.bool_)):
        return bool(v)
    if isinstance(v, (float, np.floating)):
        return float(f"{float(v):.12g}") if v == v else "nan"
    if isinstance(v, (int, np.integer)):
        return int(v)
    if isinstance(v, complex):
        return [_round(v.real), _round(v.imag)]
    return v


def child_main():
    """stdin: {"corpus": [...], "variants": [...], "seed": str} -> stdout: texts digests (and texts for the base)."""
    from vf import bootstrap
    bootstrap()
    req = json.loads(sys.stdin.read())
    corpus = req["corpus"]
    rng = random.Random(req["seed"])
    res = []
    for i, item in enumerate(corpus):
        row = {}
        others = [corpus[(i + 1) % len(corpus)], corpus[(i + 2) % len(corpus)], corpus[(i + 3) % len(corpus)]]
        for v in req["variants"]:
            try:
                with case_alarm(60):
                    out = produce(item, v, rng, others)
            except CaseTimeout:
                out = {"python": "TIMEOUT", "fortran": None, "fortran_instrumented": None, "interp": "TIMEOUT"}
            row[v] = {k: (sha(t) if t is not None else None) for k, t in out.items()}
            if req.get("keep_text"):
                row[v]["_text"] = out
        res.append(row)
    sys.stdout.write("\nVFJSON:" + json.dumps(res) + "\n")


def run_child(corpus, variants, hashseed, seed, keep_text=False):
    env = dict(os.environ, PYTHONHASHSEED=str(hashseed),
               PYTHONPATH=VERIF_ROOT + os.pathsep + os.environ.get("PYTHONPATH", ""))
    p = subprocess.run([sys.executable, "-m", "vf.props.c15"],
                       input=json.dumps({"corpus": corpus, "variants": variants, "seed": seed,
                                         "keep_text": keep_text}),
                       env=env, cwd=VERIF_ROOT, capture_output=True, text=True, timeout=1500)
    if p.returncode != 0:
        return None, p.stderr[-500:]
    return _last_json(p.stdout), None


def diff_witness(corpus_item, variant, hashseed, what, seed):
    """Re-run base and the deviating configuration keeping the text; return a short unified diff."""
    base, _ = run_child([corpus_item], ["identity"], 0, seed, keep_text=True)
    dev, _ = run_child([corpus_item], [variant], hashseed, seed, keep_text=True)
    try:
        a = base[0]["identity"]["_text"][what] or ""
        b = dev[0][variant]["_text"][what] or ""
        d = list(difflib.unified_diff(a.splitlines(), b.splitlines(), "base", f"{variant}@hashseed{hashseed}",
                                      lineterm="", n=1))
        return "\n".join(d[:40]) if d else "(texts equal on re-run: the difference is not reproducible from these two configurations alone)"
    except Exception as ex:
        return f"(no diff: {ex})"


def history_witness(item, history, what, seed):
    """Unified diff between `item` generated alone and generated after `history` (fresh processes)."""
    alone, _ = run_child([item], ["identity"], 0, seed, keep_text=True)
    after, _ = run_child(list(history) + [item], ["identity"], 0, seed, keep_text=True)
    try:
        a = alone[0]["identity"]["_text"][what] or ""
        b = after[-1]["identity"]["_text"][what] or ""
        d = list(difflib.unified_diff(a.splitlines(), b.splitlines(), "alone", "after-other-programs", lineterm="", n=1))
        return "\n".join(d[:40])
    except Exception as ex:      # noqa: BLE001
        return f"(no diff available: {ex})"


def classify(diff):
    d = diff
    if "dagrt_deinit_" in d and d.count("\n-") and all(
            ("dagrt_deinit_" in ln or ln.startswith(("---", "+++", "@@")) or not ln[1:].strip() or "&" in ln
             or "dagrt_refcnt" in ln)
            for ln in d.splitlines() if ln.startswith(("+", "-"))):
        return "order-of-release-calls"
    if "temp_" in d:
        return "order-of-self-dependency-temporaries"
    if "ifthenelse" in d:
        return "conditional-expansion-names"
    return "text-differs"


def run_shard(shard, rec):
    rng = random.Random(shard["seed"])
    corpus = gen_corpus(rng, shard["count"])
    tables = {}
    for hs in shard["hashseeds"]:
        variants = VARIANTS if hs == 0 else ["identity", "set", "frozenset", "after-1-other"]
        t, err = run_child(corpus, variants, hs, shard["seed"])
        if t is None:
            rec.notes.append(f"hashseed child {hs} failed: {err}")
            continue
        rec.count("hashseed_processes")
        tables[hs] = t
    if 0 not in tables:
        return
    base = tables[0]
    reported = set()
    # the same corpus in REVERSE order in a fresh process: every program then has another generation history
    # (process-wide state that leaks from one generator object into the next)
    trev, err = run_child(corpus[::-1], ["identity"], 0, shard["seed"])
    if trev is None:
        rec.notes.append(f"reversed-corpus child failed: {err}")
    else:
        rec.count("hashseed_processes")
        n = len(corpus)
        for i, item in enumerate(corpus):
            row, b = trev[n - 1 - i]["identity"], base[i]["identity"]
            for what in ("python", "fortran", "fortran_instrumented"):
                if b[what] is None:
                    continue
                rec.count("digests_compared_other_generation_history")
                if row[what] != b[what] and (i, what) not in reported:
                    reported.add((i, what))
                    hist = [c for c in corpus[::-1][:n - 1 - i]]
                    d = history_witness(item, hist, what, shard["seed"])
                    rec.violation(f"{what}-depends-on-programs-generated-earlier-in-the-process:{classify(d)}",
                                  f"{what} output differs when the corpus is generated in reverse order in a fresh "
                                  f"process:\n{d}",
                                  {"script": item["script"], "kind": item["kind"], "variant": "reversed-corpus",
                                   "history": hist, "what": what})
    for i, item in enumerate(corpus):
        b = base[i]["identity"]
        nvar = 0
        for hs, t in tables.items():
            for v, row in t[i].items():
                nvar += 1
                for what in ("python", "fortran", "fortran_instrumented", "interp"):
                    if b[what] is None:
                        continue
                    rec.count({"python": "digests_compared_python", "fortran": "digests_compared_fortran",
                               "fortran_instrumented": "digests_compared_fortran_instrumented",
                               "interp": "digests_compared_interpreter"}[what])
                    if row[what] != b[what] and (i, what) not in reported:
                        reported.add((i, what))
                        d = diff_witness(item, v, hs, what, shard["seed"])
                        cause = ("hash-seed" if v == "identity" else
                                 "earlier-generator-invocation" if v.startswith("after") else
                                 "earlier-use-of-the-same-dag-object" if v.startswith("same-dag") else
                                 "statement-container" if v != "phase-order" else "phase-dict-order")
                        mech = f"{what}-depends-on-{cause}:{classify(d) if what != 'interp' else 'events'}"
                        rec.violation(mech, f"{what} output under variant {v}, PYTHONHASHSEED={hs} differs from "
                                      f"identity/seed 0:\n{d}", {"script": item["script"], "kind": item["kind"],
                                                                  "variant": v, "hashseed": hs, "what": what})
        if item["kind"] == "npconst":
            rec.count("descriptions_with_numpy_array_constant")
            rec.case(item["script"], nontrivial=False)
            continue
        st = prog.stats(item["script"])
        rec.case(item["script"], nontrivial=st["ops"] >= 6 and nvar >= 2)


def replay(witness, rec):
    if witness.get("variant") == "reversed-corpus":
        item = {"kind": witness["kind"], "script": witness["script"]}
        d = history_witness(item, witness["history"], witness["what"], "replay")
        if d.strip():
            rec.violation("replayed-difference", f"{witness['what']} differs after the recorded history:\n{d}", witness)
        rec.case(witness["script"])
        return
    item = {"kind": witness["kind"], "script": witness["script"]}
    base, _ = run_child([item], ["identity"], 0, "replay")
    for hs in (witness.get("hashseed", 1), 0, 1, 2, 3, 4, 5):
        dev, _ = run_child([item], [witness["variant"]], hs, "replay")
        w = witness["what"]
        if dev and base and dev[0][witness["variant"]][w] != base[0]["identity"][w]:
            rec.violation("replayed-difference", f"{w} differs under {witness['variant']} / hashseed {hs}", witness)
            break
    rec.case(witness["script"])


if __name__ == "__main__":
    child_main()
