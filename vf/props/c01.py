"""C01 — interpreter == generated Python == program order.

Monitor: three-way differential over recorded runs: the real NumpyInterpreter,
the class emitted by the real PythonCodeGenerator, and the independent
program-order executor R_seq, compared event by event and persistent store by
persistent store after every step."""
import random

from vf import backends, prog
from vf.runner import CaseTimeout, case_alarm
from vf.sexpr import Undefined

ID = "C01"
LEVEL = "exploration"
RULE = ("builder scripts from G_prog profile 'py' (1-3 phases; assignments, array allocation + element loops incl. "
        "zero-/one-trip and bounds held in variables, nested if/else with statements between the blocks, yields "
        "of scalars and arrays, fail/switch/restart/raise inside and outside conditionals, built-ins with "
        "permuted keyword arguments, user functions with 1-3 results, adversarial variable names, operands "
        "passed as strings or pymbolic objects, printer-stressing constants), each replayed through the real "
        "CodeBuilder and run in the real interpreter and in the generated class, bounded by max_steps or t_end "
        "and an event cap; all events and the persistent store after every step are compared three ways against "
        "R_seq. distinct = canonical JSON of the script; non-trivial = defined by R_seq, >=3 op kinds, >=1 "
        "conditional or loop, >=2 events")
ASSUMPTIONS = [
    "cases the reference semantics leaves undefined (read of an unassigned variable or array element, "
    "out-of-range / non-int subscript or bound, zero divisor, non-boolean condition, arithmetic on a flag, "
    "aliasing-sensitive element write) are excluded and counted per reason",
    "values are compared with rtol=1e-9 (NaN==NaN, inf==inf); event kinds, names, phases exactly",
    "user functions are pure",
]
ANCHORS = ["dagrt.language:CodeBuilder._add_statement", "dagrt.exec_numpy:NumpyInterpreter.run",
           "dagrt.exec_numpy:NumpyInterpreter.exec_Assign", "dagrt.codegen.python:CodeGenerator.__call__",
           "dagrt.codegen.dag_ast:create_ast_from_phase", "dagrt.codegen.expressions:PythonExpressionMapper.map_constant"]
MIN_NONTRIVIAL = {"quick": 1500, "thorough": 75600}
REQUIRED_COUNTERS = {"quick": ["events_compared", "step_snapshots_compared", "three_way_comparisons"],
                     "thorough": ["events_compared", "step_snapshots_compared", "three_way_comparisons"]}
SHARD_TIMEOUT = {"quick": 900, "thorough": 3400}


def plan(tier, seed):
    per = 220 if tier == "quick" else 15000
    return [{"seed": f"C01:{seed}:{k}", "count": per} for k in range(16)]


def classify(pair, diff, script):
    return f"{pair}:{diff[0]}"


def check_script(script, rec, want_witness=True):
    """Returns 'undefined' | 'ok' | 'violation'."""
    wit = {"script": script}
    try:
        with case_alarm(20):
            try:
                rs, ref = backends.rseq_result(script)
            except Undefined as u:
                rec.undef(str(u))
                return "undefined"
            if rs.alias_sensitive:
                rec.undef("alias-sensitive-element-write")
                return "undefined"
            try:
                dag = prog.build(script)
            except Exception as ex:
                rec.violation(f"builder-exception-{type(ex).__name__}",
                              f"CodeBuilder raised {type(ex).__name__}: {ex}", wit)
                return "violation"
            funcs = prog.python_functions(script)
            from vf.runner import jhash
            if jhash(script)[-1] in "0123":
                # every fourth method description is printed before it is used (reading it must not change it)
                str(dag)
                rec.count("methods_printed_before_use")
            ri = backends.run_interpreter(dag, script, funcs)
            rg = backends.run_generated(dag, script, funcs)
    except CaseTimeout:
        rec.timeout()
        return "timeout"
    out = "ok"
    for label, r in (("interpreter", ri), ("generated", rg)):
        if r.crash is not None:
            rec.violation(f"{label}-crash-{r.crash[0]}",
                          f"{label} raised {r.crash[0]}: {r.crash[1]} where program order is defined "
                          f"(reference events: {len(ref.events)})", wit)
            out = "violation"
    if ri.stray_keys:
        rec.violation("interpreter-temporary-survives-step",
                      f"non-persistent keys in the interpreter store at a step boundary: {sorted(set(ri.stray_keys))}",
                      wit)
        out = "violation"
    rec.count("events_compared", len(ref.events))
    rec.count("step_snapshots_compared", len(ref.persist_after))
    for (a, la), (b, lb) in ((((ri, "interpreter"), (ref, "program-order"))),
                             ((rg, "generated"), (ref, "program-order")),
                             ((ri, "interpreter"), (rg, "generated"))):
        if a.crash is not None or b.crash is not None:
            continue
        rec.count("three_way_comparisons")
        d = backends.first_difference(a, b, la, lb)
        if d is not None:
            rec.violation(classify(f"{la}-vs-{lb}", d, script), d[1], wit)
            out = "violation"
    return out


def nontrivial(script, outcome, nevents):
    st = prog.stats(script)
    return outcome == "ok" and len(st["kinds"]) >= 3 and st["control"] >= 1 and nevents >= 2


def run_shard(shard, rec):
    rng = random.Random(shard["seed"])
    for i in range(shard["count"]):
        # every tenth program is a large one (up to 30 operations per phase instead of 12)
        big = i % 10 == 9
        # every fifth program registers user functions under plain names that its variables use too
        shadow = i % 5 == 3
        g = prog.Gen(rng, profile="py", max_ops=30 if big else 12, shadow_funcs=shadow, call_bias=0.15 if shadow else 0.0)
        script = g.script()
        if len(script["phases"]) > 1 and i % 4 == 2:
            script["shared_ids"] = True
            rec.count("programs_whose_phases_share_statement_ids")
        if shadow:
            rec.count("programs_with_function_named_like_variable",
                      int(any(not f.startswith("<") for f in script.get("funcs", {}))))
        if big:
            rec.count("large_programs")
        outcome = check_script(script, rec)
        rec.count("outcome_" + outcome)
        st = prog.stats(script)
        nev = 2
        rec.case(script, nontrivial=nontrivial(script, outcome, nev),
                 sample={"stats": st, "script": script})


def replay(witness, rec):
    check_script(witness["script"], rec)
    rec.case(witness["script"])
