"""C13 — distinct IR names map to distinct, legal, stable target identifiers.

Monitors: (a) icontract class invariant on the real KeyToUniqueNameMap
(value-injective, monotone), re-bound in both generator modules; (b) per-set
checks on what the real PythonNameManager / FortranNameManager return under a
chosen lookup order; (c) compile checks (Python compile(), gfortran
-fsyntax-only) of code that declares/assigns every mapped identifier."""
import itertools
import keyword
import random
import re

from vf import fort

ID = "C13"
LEVEL = "exploration"
RULE = ("sets of IR names looked up through the real PythonNameManager and FortranNameManager: exhaustive pairs "
        "(both lookup orders) of all names of length<=2 (thorough: <=3) over {a,A,_,^,*,0,<,>} plus tagged forms "
        "(<state>n, <p>n, <func>n); random sets of 2-30 names over an adversarial alphabet (case-only and "
        "punctuation-only differences, look-alikes of generated identifiers, lengths up to 80) under random "
        "lookup orders with repeats and interleaved generator-internal requests (refcounts, drtf_ temporaries); "
        "compile checks per set. distinct = (sorted name set, lookup order); non-trivial = >=2 names of which "
        "two collide after sanitising or case-folding, or a name needs sanitising")
ASSUMPTIONS = [
    "user names do not start with 'dagrt_' (documented as forbidden)",
    "variable names are arbitrary strings; function names are '<func>NAME' / '<builtin>NAME' with adversarial NAME "
    "(documented convention); bare function names (keywords, digit-leading) live in a separate class",
    "Fortran legality: [A-Za-z][A-Za-z0-9_]{0,62} per %-component, comparison case-insensitive; "
    "Python legality: str.isidentifier() and not a keyword per dotted component",
]
ANCHORS = ["dagrt.codegen.utils:KeyToUniqueNameMap.get_or_make_name_for_key",
           "dagrt.codegen.utils:make_identifier_from_name",
           "dagrt.codegen.python:PythonNameManager.__getitem__",
           "dagrt.codegen.fortran:FortranNameManager.__getitem__",
           "dagrt.codegen.fortran:FortranNameManager.name_refcount"]
MIN_NONTRIVIAL = {"quick": 3000, "thorough": 560000}
REQUIRED_COUNTERS = {"quick": ["lookups_python", "lookups_fortran", "invariant_evaluations",
                               "python_compile_checks", "fortran_syntax_checks"],
                     "thorough": ["lookups_python", "lookups_fortran", "invariant_evaluations",
                                  "python_compile_checks", "fortran_syntax_checks"]}
SHARD_TIMEOUT = {"quick": 900, "thorough": 3000}

ALPHA = ["a", "A", "_", "^", "*", "0", "<", ">"]
FTN_ID = re.compile(r"^[A-Za-z][A-Za-z0-9_]{0,62}$")


def plan(tier, seed):
    sh = []
    for k in range(12):
        sh.append({"kind": "exh", "k": k, "n": 12, "maxlen": 2 if tier == "quick" else 3})
    per = 150 if tier == "quick" else 32000
    for k in range(12):
        sh.append({"kind": "rand", "seed": f"C13:{seed}:{k}", "count": per,
                   "compile_every": 10 if tier == "quick" else 25})
    return sh


def short_names(maxlen):
    out = []
    for n in range(1, maxlen + 1):
        for t in itertools.product(ALPHA, repeat=n):
            s = "".join(t)
            out.append(s)
    out += ["<state>" + s for s in ("a", "A", "a^", "a_", "0")]
    out += ["<p>" + s for s in ("a", "A", "a*")]
    return [s for s in out if not s.startswith("dagrt_")]


# {{{ invariant on the real map class

class Inv:
    def __init__(self, rec):
        self.rec = rec
        self.failures = []

    def attach(self):
        import icontract
        import dagrt.codegen.fortran as F
        import dagrt.codegen.python as P
        import dagrt.codegen.utils as U
        inv = self

        class MapBroken(Exception):
            pass

        def injective_and_monotone(self):
            inv.rec.count("invariant_evaluations")
            d = self._dict
            vals = list(d.values())
            if len(set(vals)) != len(vals):
                inv.failures.append(("map-not-injective", f"two keys share a value: {d}"))
            prev = getattr(self, "_vf_prev", None)
            if prev is not None:
                for k, v in prev.items():
                    if d.get(k) != v:
                        inv.failures.append(("map-entry-changed",
                                             f"entry {k!r}: {v!r} -> {d.get(k)!r}"))
            object.__setattr__(self, "_vf_prev", dict(d))
            return True

        self._orig = U.KeyToUniqueNameMap
        cls = icontract.invariant(injective_and_monotone, error=MapBroken)(U.KeyToUniqueNameMap)
        U.KeyToUniqueNameMap = cls
        P.KeyToUniqueNameMap = cls
        F.KeyToUniqueNameMap = cls

    def detach(self):
        import dagrt.codegen.fortran as F
        import dagrt.codegen.python as P
        import dagrt.codegen.utils as U
        U.KeyToUniqueNameMap = self._orig
        P.KeyToUniqueNameMap = self._orig
        F.KeyToUniqueNameMap = self._orig

# }}}


def is_state(n):
    return n in ("<t>", "<dt>") or any(n.startswith(p) for p in
                                       ("<state>", "<p>", "<ret_time_id>", "<ret_time>", "<ret_state>"))


PY_RESERVED = {"self.t", "self.dt", "self.next_phase", "self._numpy", "self._functions",
               "self.phase_transition_table", "self.StateComputed", "self.StepCompleted", "self.StepFailed",
               "self.FailStepException", "self.TransitionEvent", "self.StepError", "self.set_up", "self.run",
               "self.run_single_step", "self", "function_map", "numpy", "evt"}


def py_legal(ident):
    parts = ident.split(".")
    return all(p.isidentifier() and not keyword.iskeyword(p) for p in parts)


def ftn_legal(ident):
    return all(FTN_ID.match(p) for p in ident.split("%"))


def shape_key(names, a, b):
    """Mechanism features of a colliding / illegal pair (structure only)."""
    if a.lower() == b.lower() and a != b:
        return "case-only-difference"
    return "sanitised-collision"


def check_python_phases(phases, rec):
    """One manager, several phase functions: the generator calls clear_locals() between them.  Within each
    phase function the identifiers must be legal, stable and pairwise distinct (persistent ones across all)."""
    import unicodedata
    from dagrt.codegen.python import PythonNameManager
    nm = PythonNameManager()
    wit = {"target": "python", "phases": phases}
    persistent = {}
    for pi, lookups in enumerate(phases):
        if pi:
            nm.clear_locals()
        seen = dict(persistent)
        for kind, n in lookups:
            try:
                ident = nm.name_function(n) if kind == "func" else nm[n]
            except Exception as ex:
                rec.violation(f"python-lookup-raises-{type(ex).__name__}", f"lookup of {n!r}: {ex}", wit)
                return
            rec.count("lookups_python_multiphase")
            key = (kind, n)
            if key in seen and seen[key] != ident:
                rec.violation("python-unstable-identifier",
                              f"phase {pi}: {n!r} mapped to {seen[key]!r}, later to {ident!r}", wit)
                return
            seen[key] = ident
            if kind == "func" or is_state(n):
                persistent[key] = ident
            if not py_legal(ident):
                rec.violation("python-illegal-identifier-in-later-phase", f"{n!r} -> {ident!r}", wit)
                return
        by_ident = {}
        for (kind, n), ident in seen.items():
            ident = unicodedata.normalize("NFKC", ident)
            if ident in by_ident and by_ident[ident] != (kind, n):
                o = by_ident[ident]
                rec.violation("python-collision-within-a-later-phase-function",
                              f"phase function {pi}: {n!r} and {o[1]!r} both map to {ident!r}", wit)
                return
            by_ident[ident] = (kind, n)
    rec.count("python_multiphase_sequences")


def check_python(lookups, rec, do_compile):
    """lookups: list of ("var"|"func", name)."""
    from dagrt.codegen.python import PythonNameManager
    nm = PythonNameManager()
    seen = {}
    wit = {"target": "python", "lookups": lookups}
    for kind, n in lookups:
        try:
            ident = nm.name_function(n) if kind == "func" else nm[n]
        except Exception as ex:
            rec.violation(f"python-lookup-raises-{type(ex).__name__}", f"lookup of {n!r}: {ex}", wit)
            return
        rec.count("lookups_python")
        key = (kind, n)
        if key in seen and seen[key] != ident:
            rec.violation("python-unstable-identifier",
                          f"{n!r} mapped to {seen[key]!r}, later to {ident!r}", wit)
            return
        seen[key] = ident
        if not py_legal(ident):
            cls = "function" if kind == "func" else "variable"
            why = ("keyword" if any(keyword.iskeyword(p) for p in ident.split(".")) else
                   "digit-leading" if any(p[:1].isdigit() for p in ident.split(".")) else "other")
            rec.violation(f"python-illegal-{cls}-identifier-{why}",
                          f"{n!r} -> {ident!r} is not a legal Python identifier", wit)
            return
        if kind == "var":
            if is_state(n) and not ident.startswith("self."):
                rec.violation("python-persistent-not-in-instance-storage", f"{n!r} -> {ident!r}", wit)
                return
            if not is_state(n) and ("." in ident):
                rec.violation("python-local-in-instance-storage", f"{n!r} -> {ident!r}", wit)
                return
        if ident in PY_RESERVED and n not in ("<t>", "<dt>"):
            rec.violation("python-reserved-identifier-issued", f"{n!r} -> {ident!r}", wit)
            return
        if ident.startswith("self.phase_") or ident.startswith("self._builtin_"):
            rec.violation("python-reserved-identifier-issued", f"{n!r} -> {ident!r}", wit)
            return
    by_ident = {}
    import unicodedata
    for (kind, n), ident in seen.items():
        # Python compares identifiers after NFKC normalisation (PEP 3131)
        ident = unicodedata.normalize("NFKC", ident)
        if ident in by_ident and by_ident[ident] != (kind, n):
            o = by_ident[ident]
            rec.violation("python-collision-" + shape_key(None, n, o[1]),
                          f"{n!r} and {o[1]!r} both map to {ident!r} (after NFKC normalisation)", wit)
            return
        by_ident[ident] = (kind, n)
    if do_compile and seen:
        body = "".join(f"    {ident} = 1\n" for ident in seen.values())
        src = "def phase(self):\n" + body + "    return (" + ", ".join(seen.values()) + ",)\n"
        rec.count("python_compile_checks")
        try:
            compile(src, "<c13>", "exec")
        except SyntaxError as ex:
            rec.violation("python-compile-check-fails", f"{ex}: {sorted(seen.values())}", wit)


def check_fortran(lookups, rec, do_compile):
    from dagrt.codegen.fortran import FortranNameManager
    nm = FortranNameManager()
    seen = {}
    extra = []
    wit = {"target": "fortran", "lookups": lookups}
    for kind, n in lookups:
        try:
            if kind == "func":
                ident = nm.name_function(n)
            elif kind == "tmp":
                ident = nm.make_unique_fortran_name(n)
                extra.append(ident)
                rec.count("lookups_fortran")
                if not ftn_legal(ident):
                    rec.violation("fortran-illegal-temporary", f"drtf request {n!r} -> {ident!r}", wit)
                    return
                continue
            elif kind == "refcnt":
                ident = nm.name_refcount(n)
            else:
                ident = nm[n]
        except Exception as ex:
            rec.violation(f"fortran-lookup-raises-{type(ex).__name__}", f"lookup of {n!r}: {ex}", wit)
            return
        rec.count("lookups_fortran")
        key = (kind, n)
        if key in seen and seen[key] != ident:
            rec.violation("fortran-unstable-identifier",
                          f"{n!r} mapped to {seen[key]!r}, later to {ident!r}", wit)
            return
        seen[key] = ident
        if not ftn_legal(ident):
            toolong = any(len(p) > 63 for p in ident.split("%"))
            cls = {"func": "function", "refcnt": "refcount"}.get(kind, "variable")
            why = "too-long" if toolong else ("digit-leading" if any(p[:1].isdigit() for p in ident.split("%"))
                                              else "other")
            rec.violation(f"fortran-illegal-{cls}-identifier-{why}",
                          f"{n!r} -> {ident!r} is not a legal Fortran name"
                          + (f" ({max(len(p) for p in ident.split('%'))} characters)" if toolong else ""), wit)
            return
        if kind == "var":
            if is_state(n) and not ident.startswith("dagrt_state%"):
                rec.violation("fortran-persistent-not-in-state-storage", f"{n!r} -> {ident!r}", wit)
                return
            if not is_state(n) and "%" in ident:
                rec.violation("fortran-local-in-state-storage", f"{n!r} -> {ident!r}", wit)
                return
        low = ident.lower()
        if kind in ("var", "func") and n not in ("<t>", "<dt>"):
            last = low.split("%")[-1]
            if last in ("dagrt_t", "dagrt_dt"):
                rec.violation("fortran-preassigned-identifier-issued",
                              f"{n!r} -> {ident!r}, the identifier pre-assigned to <t> / <dt>", wit)
                return
            # (a name that itself sits in the generator's namespace keeps its prefix; it must only stay clear of
            # the identifiers that are actually taken)
            own = n.split(">")[-1].lower().replace(".", "_")
            intrudes = own.startswith("dagrt_") or own.startswith("drtf_")
            if not intrudes and (last.startswith("dagrt_") or last.startswith("drtf_")):
                rec.violation("fortran-reserved-identifier-issued", f"{n!r} -> {ident!r}", wit)
                return
    by_ident = {}
    for (kind, n), ident in list(seen.items()) + [(("tmp", x), x) for x in extra]:
        low = ident.lower()
        if low in by_ident and by_ident[low][0] != (kind, n):
            o = by_ident[low]
            exact = (o[1] == ident)
            mech = "fortran-collision-" + ("sanitised-collision" if exact else "case-insensitive-only")
            if kind == "tmp" or o[0][0] == "tmp":
                mech += "-with-generator-temporary"
            rec.violation(mech, f"{n!r} -> {ident!r} and {o[0][1]!r} -> {o[1]!r} are one Fortran identifier", wit)
            return
        by_ident[low] = ((kind, n), ident)
    if do_compile and seen and fort.have_gfortran():
        fields, locs = [], []
        for (kind, n), ident in seen.items():
            if "%" in ident:
                fields.append(ident.split("%")[1])
            else:
                locs.append(ident)
        locs += extra
        src = "module m\n implicit none\n type dagrt_state_type\n  integer dagrt_next_phase\n"
        src += "".join(f"  real(8) :: {x}\n" for x in fields)
        src += " end type\ncontains\n subroutine s(dagrt_state)\n  type(dagrt_state_type), pointer :: dagrt_state\n"
        src += "".join(f"  real(8) :: {x}\n" for x in locs)
        src += "".join(f"  {x} = 1\n" for x in locs)
        src += "".join(f"  dagrt_state%{x} = 1\n" for x in fields)
        src += " end subroutine\nend module\n"
        with fort.Scratch("vf-c13-") as d:
            rc, out = fort.compile_(d, [("m.f90", src)], flags=["-fsyntax-only"], exe="x")
        rec.count("fortran_syntax_checks")
        if rc != 0:
            rec.violation("fortran-syntax-check-fails", out[-500:], wit)


def ntriv(names):
    from dagrt.codegen.utils import make_identifier_from_name
    if len(names) < 2:
        return any(make_identifier_from_name(n) != n for n in names)
    san = [make_identifier_from_name(n).lower() for n in names]
    return len(set(san)) < len(san) or any(make_identifier_from_name(n) != n for n in names)


def boundary_sets():
    """Names whose mapped identifier is just below / at / above Fortran's 63-character limit, together with
    names that collapse onto them after sanitising or case-folding (the unique suffix must still fit)."""
    for L in range(48, 66):
        for ch in "xq":
            base = ch * L
            yield [base, base.upper(), base[:-1] + "^", base[:-1] + "*", base[:-1] + "_"]
            yield ["<state>" + base, "<state>" + base.upper(), "<state>" + base[:-1] + "^"]
            yield ["<p>" + base, "<p>" + base[:-1] + "'", "<p>" + base[:-1] + "_"]


def gen_set(rng):
    bases = ["y", "Y", "tmp", "state_y", "local_y", "lploc_y", "func_f", "y_0", "y_1", "k", "K",
             "global_state_y", "refcnt_y", "i", "I", "x" * rng.choice([30, 45, 51, 62, 64, 80]), "p_x",
             "ret_state_y", "t", "dt", "if", "class", "0"]
    names = set()
    n = rng.randint(2, 30)
    while len(names) < n:
        r = rng.random()
        b = rng.choice(bases)
        if r < 0.2:
            s = b
        elif r < 0.34:
            s = b + rng.choice(["^", "*", "_", "'", ".", "-", "!", " "])
        elif r < 0.4:
            # non-ASCII letters / digits (str.isalnum() accepts them; NFKC folds some onto others or onto ASCII)
            c = rng.choice(["\u00b5", "\u03bc", "\u00b2", "\u00e9", "\uff41", "\u00df", "\u0131", "\u017f",
                            "\u2167", "\u0660"])
            s = rng.choice([b + c, c + b, c, b[:1] + c + b[1:]])
        elif r < 0.55:
            s = b.swapcase() if rng.random() < 0.5 else b.upper()
        elif r < 0.7:
            s = rng.choice(["<state>", "<p>", "<ret_state>", "<cond>"]) + b
        elif r < 0.8:
            s = b + "_" + str(rng.randint(0, 2))
        elif r < 0.9:
            s = "".join(rng.choice(ALPHA + ["b", "B", "1"]) for _ in range(rng.randint(1, 6)))
        else:
            s = rng.choice(["_", "__", "^", "^^", "0", "00", "<", ">", "<>"]) + rng.choice(["", "a", "A"])
        if s.startswith("dagrt_") or not s:
            continue
        names.add(s)
    if rng.random() < 0.15:
        # per-step names that sit in the generator's own namespace and are spelled like the identifiers it has
        # pre-assigned to <t> and <dt> (those two are looked up as well)
        names.update(rng.sample(["dagrt_t", "dagrt_dt", "dagrt_T", "dagrt_dT", "dagrt_Dt", "dagrt.t"], rng.randint(1, 3)))
        names.update(["<t>", "<dt>"])
    return sorted(names)


FUNCTION_TWINS = [("<func>rhs.a", "<func>rhs_a"), ("<func>Flux", "<func>flux"), ("<func>f^", "<func>f_"),
                  ("<func>_g", "<func>g"), ("<func>stage-1", "<func>stage_1"),
                  ("<func>" + "q" * 70, "<func>" + "q" * 69 + "_"), ("<func>f", "<func>g")]


def check_function_twins(rec):
    """End to end through the Fortran generator: a method that calls two registered functions whose names are
    confusable (same argument kinds) must come out with both functions' bodies, reached through different
    subroutines."""
    import re
    import dagrt.codegen.fortran as f
    from dagrt.function_registry import base_function_registry, register_ode_rhs
    from dagrt.language import CodeBuilder, DAGCode
    from pymbolic import var
    for a, b in FUNCTION_TWINS:
        for first, second in ((a, b), (b, a)):
            wit = {"function_twins": [first, second]}
            with CodeBuilder("primary") as cb:
                cb("k1", var(first)(0, var("<state>y")))
                cb("k2", var(second)(0, var("<state>y")))
                cb("<state>y", "k1 + 10*k2")
            dag = DAGCode.from_phases_list([cb.as_execution_phase("primary")], "primary")
            freg = base_function_registry
            for k, fid in enumerate((first, second)):
                freg = register_ode_rhs(freg, "ytype", identifier=fid, input_names=("y",))
                freg = freg.register_codegen(fid, "fortran", f.CallCode(
                    "\n                ${result} = %d*${y} ! BODY-OF-%d\n                " % (k + 2, k)))
            try:
                text = f.CodeGenerator("twins", function_registry=freg, user_type_map={
                    "ytype": f.ArrayType((2,), f.BuiltinType("real*8"), index_vars="idx")})(dag)
            except Exception as ex:
                rec.violation(f"fortran-generator-raises-{type(ex).__name__}-on-confusable-function-names",
                              f"{first!r} / {second!r}: {ex}", wit)
                continue
            rec.count("function_twin_modules_generated")
            rec.case(["function-twins", first, second], nontrivial=True)
            missing = [k for k in (0, 1) if f"BODY-OF-{k}" not in text]
            if missing:
                rec.violation("fortran-function-body-missing-for-confusable-names",
                              f"{first!r} / {second!r}: the body of function #{missing[0]} is not in the module", wit)
                continue
            text = re.sub(r"&[ \t]*\n[ \t]*", " ", text)       # (continued lines joined)
            subs = re.findall(r"^\s*subroutine\s+(drtf_\w+)", text, re.M | re.I)
            low = [x.lower() for x in subs]
            if len(set(low)) != len(low):
                rec.violation("fortran-function-subroutines-collide", f"{first!r} / {second!r}: {subs}", wit)
                continue
            called = set(x.lower() for x in re.findall(r"call\s+(drtf_\w+)", text, re.I))
            if len(called) < 2:
                rec.violation("fortran-confusable-functions-called-through-one-subroutine",
                              f"{first!r} / {second!r}: calls go to {sorted(called)}", wit)
                continue
            for x in subs:
                if len(x) > 63:
                    rec.violation("fortran-function-subroutine-name-too-long", f"{x} ({len(x)} characters)", wit)
                    break


def run_shard(shard, rec):
    inv = Inv(rec)
    inv.attach()
    try:
        if shard["kind"] == "exh":
            names = short_names(shard["maxlen"])
            idx = 0
            for a in names:
                for b in names:
                    if a == b:
                        continue
                    idx += 1
                    if idx % shard["n"] != shard["k"]:
                        continue
                    lk = [("var", a), ("var", b), ("var", a)]
                    check_python(lk, rec, False)
                    check_fortran(lk, rec, False)
                    for mech, why in inv.failures:
                        rec.violation(mech, why, {"lookups": lk})
                    inv.failures.clear()
                    rec.case([a, b], nontrivial=ntriv([a, b]), by_construction=True)
                    rec.count("exhaustive_ordered_pairs")
            rec.cmax("max_exhaustive_name_length", shard["maxlen"])
        else:
            rng = random.Random(shard["seed"])
            if shard["seed"].endswith(":1"):
                check_function_twins(rec)
            if shard["seed"].endswith(":0"):
                for names in boundary_sets():
                    for order in (names, names[::-1]):
                        lk = [("var", n) for n in order] + [("refcnt", n) for n in order[:2]]
                        lk += [("func", "<func>" + order[0][-60:]), ("func", "<func>" + order[0][-60:].upper())]
                        check_python([x for x in lk if x[0] in ("var", "func")], rec, False)
                        check_fortran(lk, rec, False)
                        for mech, why in inv.failures:
                            rec.violation(mech, why, {"lookups": lk})
                        inv.failures.clear()
                        rec.case(["boundary", order], nontrivial=True)
                        rec.count("boundary_length_sets")
            for i in range(shard["count"]):
                names = gen_set(rng)
                lk = [("var", n) for n in names]
                # functions: tagged (deciding); refcounts and generator temporaries interleaved
                fn = [("func", rng.choice(["<func>", "<builtin>"]) + rng.choice(
                    ["f", "F", "f^", "f_", "y", "rhs_2", "0", "if",
                     # reserved words / digits hidden behind characters that sanitising removes or replaces
                     "_lambda", ".if", "-class", "__import", "<in", "^None", "_0", "*1f", "_", "__", "^", "True",
                     "not^", "f.g", "is", "_is", "dagrt.dt", "dagrt_T"])) for _ in range(rng.randint(0, 4))]
                lk += fn
                # (names that keep at least one ASCII letter when sanitised: a function whose name sanitises to nothing
                # gets the generator's fallback name, see the bare-name pool above)
                plain = [n for n in names if "<" not in n and n.isidentifier() and any(
                    c.isascii() and c.isalpha() for c in n) and not n.lower().startswith(("dagrt", "drtf"))]
                if plain and i % 4 == 1:
                    # a user function registered under the very name of a per-step variable (two name spaces)
                    lk += [("func", rng.choice(plain))]
                    rec.count("sets_with_function_named_like_a_variable")
                # (every third set: a reference counter for EVERY name -- counters of confusable names must differ too)
                nrc = len(names) if i % 3 == 0 else min(len(names), rng.randint(0, 3))
                lk += [("refcnt", n) for n in rng.sample(names, nrc)]
                lk += [("tmp", rng.choice(["hoisted", "i", "res1", "y", "Y"])) for _ in range(rng.randint(0, 3))]
                lk += rng.sample(lk, min(len(lk), rng.randint(0, 6)))      # repeats
                rng.shuffle(lk)
                do_compile = (i % shard["compile_every"] == 0)
                check_python([x for x in lk if x[0] in ("var", "func")], rec, do_compile)
                check_fortran(lk, rec, do_compile)
                # the same names spread over several phase functions, each with its own subset and order
                pl = [x for x in lk if x[0] in ("var", "func")]
                phases = []
                for _ in range(rng.choice([2, 2, 3])):
                    ph = rng.sample(pl, rng.randint(1, len(pl))) if pl else []
                    phases.append(ph + rng.sample(ph, min(len(ph), 2)))
                check_python_phases(phases, rec)
                for mech, why in inv.failures:
                    rec.violation(mech, why, {"lookups": lk})
                inv.failures.clear()
                rec.case([names, lk], nontrivial=ntriv(names))
                rec.count("random_sets")
                if i % 7 == 0:
                    # separate class: bare (untagged) function names
                    bare = [("func", rng.choice(["class", "if", "1f", "f", "lambda", "0", "_lambda", ".if", "-class",
                                                 "<in", "__import", "_0", "^1f", "^None", "is^", "_f", "f.g"]))
                            for _ in range(rng.choice([1, 2, 3]))]
                    before = len(rec.violations)
                    keys = set(rec.violations)
                    check_python(bare, rec, False)
                    check_fortran(bare, rec, False)
                    rec.count("bare_function_name_sets")
    finally:
        inv.detach()


def replay(witness, rec):
    inv = Inv(rec)
    inv.attach()
    try:
        if "function_twins" in witness:
            check_function_twins(rec)
            return
        if "phases" in witness:
            check_python_phases([[tuple(x) for x in ph] for ph in witness["phases"]], rec)
            rec.case(witness)
            return
        lk = [tuple(x) for x in witness["lookups"]]
        if witness.get("target") != "fortran":
            check_python([x for x in lk if x[0] in ("var", "func")], rec, True)
        if witness.get("target") != "python":
            check_fortran(lk, rec, True)
        for mech, why in inv.failures:
            rec.violation(mech, why, {"lookups": lk})
        rec.case(witness)
    finally:
        inv.detach()


def coverage_extra(tier, counters):
    return {"exhaustive_subspace": f"all ordered pairs of distinct names of length <= "
            f"{counters.get('max_exhaustive_name_length')} over {ALPHA} (+13 tagged forms), lookup a,b,a"}
