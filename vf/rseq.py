"""R_seq — program-order reference executor for builder scripts (DESIGN 1.5).

No dagrt / pymbolic import.  Executes a script op by op, in the order the
builder calls were written, and produces the expected event list, the
persistent store after every step, the full store at the end of every
completed step, per-statement dynamic read/write sets, and (C11) call taint.

Event encoding (shared with the observers of the real backends):
  ["yield", t, time_id, component, value]
  ["completed", dt, t, current_phase, next_phase]
  ["failed", t]
  ["raised", error_name]
"""
import copy
import math

import numpy as np

from vf.sexpr import Env, Undefined, ev, is_boolish, is_num


def is_persistent(name):
    return name in ("<t>", "<dt>") or name.startswith("<state>") or name.startswith("<p>")


# {{{ independent implementations of the built-ins (documented semantics)

def _vec(x):
    return np.atleast_1d(np.asarray(x))


def b_norm(ordv):
    def f(x):
        if isinstance(x, np.ndarray):
            a = np.abs(x.astype(complex) if np.iscomplexobj(x) else x)
            if ordv == 1:
                return float(sum(a.tolist()))
            if ordv == 2:
                return math.sqrt(sum(v * v for v in a.tolist()))
            return float(max(a.tolist())) if len(a) else 0.0
        if is_boolish(x) or not is_num(x):
            raise Undefined("norm-of-non-number")
        return abs(x)
    return f


def b_len(x):
    if isinstance(x, np.ndarray):
        return int(x.size)
    if is_num(x):
        return 1
    raise Undefined("len-of-non-number")


def b_isnan(x):
    # documented: "returns True if and only if there are any NaNs in x"
    if isinstance(x, np.ndarray):
        return bool(any(v != v for v in x.tolist()))
    if is_boolish(x) or not is_num(x):
        raise Undefined("isnan-of-non-number")
    return bool(x != x)


def b_dot(x, y):
    a, b = x, y
    if not (isinstance(a, np.ndarray) and isinstance(b, np.ndarray)) or a.shape != b.shape:
        raise Undefined("dot-product-operands")
    tot = 0
    for u, v in zip(a.tolist(), b.tolist()):
        tot = tot + (u.conjugate() if isinstance(u, complex) else u) * v
    return tot


def b_abs(x):
    if isinstance(x, np.ndarray):
        return np.array([abs(v) for v in x.tolist()], dtype=float)
    if is_boolish(x) or not is_num(x):
        raise Undefined("abs-of-non-number")
    return abs(x)


def _intarg(n, what):
    if is_boolish(n) or not is_num(n) or isinstance(n, complex) or n != int(n):
        raise Undefined(what + "-not-integral")
    return int(n)


def _mat(a, cols, what):
    cols = _intarg(cols, what)
    if not isinstance(a, np.ndarray) or cols <= 0 or a.size % cols:
        raise Undefined(what + "-shape")
    rows = a.size // cols
    # column-major (Fortran order): element (r, c) = a[c*rows + r]
    return [[a[c * rows + r] for c in range(cols)] for r in range(rows)], rows, cols


def _unmat(m, rows, cols):
    return np.array([m[r][c] for c in range(cols) for r in range(rows)], dtype=float)


def b_matmul(a, b, a_cols, b_cols):
    A, ar, ac = _mat(a, a_cols, "matmul")
    B, br, bc = _mat(b, b_cols, "matmul")
    if ac != br:
        raise Undefined("matmul-shape")
    C = [[sum(A[i][k] * B[k][j] for k in range(ac)) for j in range(bc)] for i in range(ar)]
    return _unmat(C, ar, bc)


def b_transpose(a, a_cols):
    A, ar, ac = _mat(a, a_cols, "transpose")
    T = [[A[r][c] for r in range(ar)] for c in range(ac)]
    return _unmat(T, ac, ar)


def b_linear_solve(a, b, a_cols, b_cols):
    A, ar, ac = _mat(a, a_cols, "linear_solve")
    B, br, bc = _mat(b, b_cols, "linear_solve")
    if ar != ac or ar != br or ar != 2:
        raise Undefined("linear-solve-shape")
    det = A[0][0] * A[1][1] - A[0][1] * A[1][0]
    if abs(det) < 1e-6:
        raise Undefined("linear-solve-singular")
    X = [[(B[0][j] * A[1][1] - A[0][1] * B[1][j]) / det for j in range(bc)],
         [(A[0][0] * B[1][j] - B[0][j] * A[1][0]) / det for j in range(bc)]]
    return _unmat(X, 2, bc)


class ArrayMaker:
    """<builtin>array(n): storage whose elements are undefined until written."""

    def __init__(self, masks):
        self.masks = masks

    def __call__(self, n):
        n = _intarg(n, "array-size")
        if n < 0:
            raise Undefined("array-size-negative")
        a = np.full(n, np.nan)
        self.masks.register(a)
        return a


class Masks:
    """Per-element definedness of arrays made by <builtin>array."""

    def __init__(self):
        self.by_id = {}
        self.keep = []

    def register(self, a):
        self.by_id[id(a)] = np.zeros(a.shape, dtype=bool)
        self.keep.append(a)

    def elem_defined(self, a, idx):
        m = self.by_id.get(id(a))
        if m is None:
            return True
        if idx is None:
            return bool(m.all())
        return bool(m[idx])

    def wrote(self, a, idx):
        m = self.by_id.get(id(a))
        if m is not None:
            m[idx] = True


def user_function(spec):
    """Pure user function from a spec {"args": [...], "coef": [c0, c1..], "nres": n, "vec": bool}.
    result_k = c0 + k + sum(c_i * arg_i)   (arrays broadcast)."""
    names = spec["args"]
    coef = spec["coef"]
    nres = spec.get("nres", 1)

    def flat(v):
        if isinstance(v, (tuple, list)):
            tot = 0
            for x in v:
                tot = tot + flat(x)
            return tot
        return v

    def f(*args, **kw):
        kw.pop("tag", None)
        if spec.get("kind") == "bag":
            args = tuple(flat(a) for a in args)
            kw = {n: flat(v) for n, v in kw.items()}
        vals = list(args)
        for n in names[len(args):]:
            if n in kw:
                vals.append(kw.pop(n))
            elif n in spec.get("defaults", {}):
                vals.append(spec["defaults"][n])
            else:
                raise Undefined("user-function-missing-argument")
        if kw or len(vals) != len(names):
            raise Undefined("user-function-bad-arguments")
        for v in vals:
            if is_boolish(v) or not (is_num(v) or isinstance(v, np.ndarray)):
                raise Undefined("user-function-non-numeric-argument")
        res = []
        for k in range(nres):
            acc = coef[0] + k
            shape = None
            for c, v in zip(coef[1:], vals):
                if isinstance(v, np.ndarray):
                    if shape is not None and shape != v.shape:
                        raise Undefined("array-shape-mismatch")
                    shape = v.shape
                acc = acc + c * v
            res.append(acc)
        return res[0] if nres == 1 else tuple(res)
    return f


def builtin_table(masks):
    return {
        "<builtin>norm_1": b_norm(1), "<builtin>norm_2": b_norm(2), "<builtin>norm_inf": b_norm("inf"),
        "<builtin>len": b_len, "<builtin>isnan": b_isnan, "<builtin>dot_product": b_dot,
        "<builtin>elementwise_abs": b_abs, "<builtin>array": ArrayMaker(masks),
        "<builtin>matmul": b_matmul, "<builtin>transpose": b_transpose,
        "<builtin>linear_solve": b_linear_solve,
    }

BUILTIN_ARGS = {
    "<builtin>norm_1": ["x"], "<builtin>norm_2": ["x"], "<builtin>norm_inf": ["x"], "<builtin>len": ["x"],
    "<builtin>isnan": ["x"], "<builtin>dot_product": ["x", "y"], "<builtin>elementwise_abs": ["x"],
    "<builtin>array": ["n"], "<builtin>matmul": ["a", "b", "a_cols", "b_cols"],
    "<builtin>transpose": ["a", "a_cols"], "<builtin>linear_solve": ["a", "b", "a_cols", "b_cols"],
}

# }}}


class StepFail(Exception):
    pass


class Switch(Exception):
    def __init__(self, phase):
        self.phase = phase


class ProgramError(Exception):
    def __init__(self, name):
        self.name = name


class InjectedFault(Exception):
    """Raised out of a user function by the C11 fault injector."""

    def __init__(self, site, payload=None):
        self.site = site
        self.payload = payload


def copyval(v):
    if isinstance(v, np.ndarray):
        return v.copy()
    return v


class RSeq:
    def __init__(self, script, fault=None, trace_stmts=False):
        self.script = script
        self.phases = {p["name"]: p for p in script["phases"]}
        self.masks = Masks()
        self.funcs = builtin_table(self.masks)
        for name, spec in script.get("funcs", {}).items():
            self.funcs[name] = self._wrap_user(name, user_function(spec))
        self.store = {"<t>": script["t0"], "<dt>": script["dt0"]}
        for k, v in script["state"].items():
            from vf.sexpr import from_jsonable
            self.store["<state>" + k] = copyval(from_jsonable(v))
        self.next_phase = script["initial"]
        self.events = []
        self.persist_after = []       # persistent store after every step (completed/failed/raised)
        self.full_at_end = []         # full store at end of every COMPLETED step (before cleanup)
        self.alias_sensitive = False
        self.stmt_log = []            # per executed op: {"op": idx-path, "reads": set, "writes": set}
        self.trace_stmts = trace_stmts
        self.fault = fault            # (site_tag, invocation) or None
        self.site_counts = {}
        self.call_log = []            # (site_tag, invocation, step)
        self.taint = {}               # var -> set of (site, invocation) tainting its current value
        self.step_writes = []         # per step: {var: [(value, taintset), ...]}
        self._cur_taint = None
        self._reads = None
        self.step_no = 0
        self.step_starts = []         # (phase, persistent store) at the start of every step

    def _mask_copy(self, value):
        if isinstance(value, np.ndarray):
            m = self.masks.by_id.get(id(value))
            if m is not None:
                return m.copy()
        return None

    # ---- user function wrapper: call log + fault injection
    def _wrap_user(self, name, f):
        def g(*args, **kw):
            tag = kw.get("tag")
            site = (name, tag)
            key = f"{name}#{tag}"
            n = self.site_counts.get(key, 0)
            self.site_counts[key] = n + 1
            self.call_log.append((key, n, self.step_no))
            if self._cur_taint is not None:
                self._cur_taint.add((key, n))
            if self.fault is not None and self.fault[0] == key and self.fault[1] == n:
                raise InjectedFault(self.fault)
            return f(*args, **kw)
        return g

    # ---- evaluation with read tracking
    def _env(self):
        def on_read(name):
            if self._reads is not None:
                self._reads.add(name)
            if self._cur_taint is not None:
                self._cur_taint |= self.taint.get(name, set())
        e = Env(self.store, self.funcs, on_read=on_read, elem_defined=self.masks.elem_defined)
        e.strict_int_index = True
        return e

    def _eval(self, e, whole=True):
        return ev(e, self._env(), whole)

    # ---- ops
    def run_ops(self, ops, active, guard_taint, path):
        for i, op in enumerate(ops):
            self.run_op(op, active, guard_taint, path + (i,))

    def _begin(self, guard_taint):
        self._reads = set()
        self._cur_taint = set(guard_taint)

    def _log(self, path, writes):
        if self.trace_stmts:
            self.stmt_log.append({"path": list(path), "reads": sorted(self._reads), "writes": sorted(writes)})

    def _write(self, name, value):
        self.store[name] = value
        self.taint[name] = set(self._cur_taint)
        if is_persistent(name):
            self.step_writes[-1].setdefault(name, []).append(
                (copyval(value), set(self._cur_taint), self._mask_copy(value)))

    def run_op(self, op, active, guard_taint, path):
        k = op[0]
        if k == "if":
            cond, body, between, els = op[1], op[2], op[3], op[4]
            flag = None
            gt = set(guard_taint)
            if active:
                self._begin(guard_taint)
                flag = self._eval(cond)
                if not is_boolish(flag):
                    raise Undefined("non-boolean-condition")
                gt = set(self._cur_taint)
                self._log(path + ("cond",), ["<flag>"])
            self.run_ops(body, active and bool(flag), gt, path + ("then",))
            self.run_ops(between, active, guard_taint, path + ("between",))
            if els is not None:
                self.run_ops(els, active and not bool(flag), gt, path + ("else",))
            return
        if not active:
            return
        self._begin(guard_taint)
        if k == "assign":
            _, lhs, sub, rhs, loops = op[:5]
            self._assign(lhs, sub, rhs, loops)
            self._log(path, [lhs])
        elif k == "call":
            _, lhss, fname, args, kw = op[:5]
            f = self.funcs.get(fname)
            if f is None:
                raise Undefined("unknown-function")
            env = self._env()
            a = [ev(x, env) for x in args]
            kws = {n: ev(v, env) for n, v in kw.items()}
            res = f(*a, **kws)
            if len(lhss) == 1:
                res = (res,)
            elif len(lhss) == 0:
                res = ()
            if not isinstance(res, tuple) or len(res) != len(lhss):
                raise Undefined("result-count-mismatch")
            for n, v in zip(lhss, res):
                self._write(n, v)
            self._log(path, list(lhss))
        elif k == "yield":
            _, expr, comp, time, time_id = op[:5]
            t = self._eval(time)
            v = self._eval(expr)
            self.events.append(["yield", t, time_id, comp, copyval(v), sorted(self._cur_taint, key=str)])
            self._log(path, [])
        elif k == "fail":
            self._log(path, [])
            raise StepFail()
        elif k == "switch":
            self._log(path, [])
            raise Switch(op[1])
        elif k == "restart":
            self._log(path, [])
            raise Switch(self.cur_phase)
        elif k == "raise":
            self._log(path, [])
            raise ProgramError(op[1])
        elif k == "fresh":
            pass
        else:
            raise ValueError(f"bad op {op!r}")

    def _assign(self, lhs, sub, rhs, loops):
        def body():
            if sub is not None:
                # interpreter order: aggregate lookup, subscript, then right-hand side
                if lhs not in self.store:
                    raise Undefined("read-unassigned")
                agg = self.store[lhs]
                if self._reads is not None:
                    self._reads.add(lhs)
                idx = self._eval(sub)
                val = self._eval(rhs)
                if not isinstance(agg, np.ndarray):
                    raise Undefined("subscript-of-non-array")
                if is_boolish(idx) or not is_num(idx) or isinstance(idx, complex) or idx != int(idx):
                    raise Undefined("non-integral-subscript")
                if not isinstance(idx, (int, np.integer)):
                    raise Undefined("non-int-typed-subscript")
                idx = int(idx)
                if not (0 <= idx < len(agg)):
                    raise Undefined("subscript-out-of-range")
                if isinstance(val, np.ndarray) or is_boolish(val) or not is_num(val):
                    raise Undefined("non-scalar-array-element")
                if isinstance(val, complex) and not np.iscomplexobj(agg):
                    raise Undefined("complex-into-real-array")
                # alias sensitivity: the same array object reachable under another name
                for n2, v2 in self.store.items():
                    if n2 != lhs and v2 is agg:
                        self.alias_sensitive = True
                # ... or that WAS reachable under another name earlier in this step (a plain copy 'a <- v' binds
                # the same object until 'a' is re-bound): another admissible schedule may put this element write
                # between the copy and a later read of 'a'
                if id(agg) in getattr(self, "_step_copied", ()):
                    self.alias_sensitive = True
                agg[idx] = val
                self.masks.wrote(agg, idx)
                self.taint[lhs] = self.taint.get(lhs, set()) | set(self._cur_taint)
                if is_persistent(lhs):
                    self.step_writes[-1].setdefault(lhs, []).append(
                        (agg.copy(), set(self.taint[lhs]), self._mask_copy(agg)))
            else:
                val = self._eval(rhs)
                if rhs[0] == "var" and isinstance(val, np.ndarray):
                    self._step_copied = getattr(self, "_step_copied", set()) | {id(val)}
                    self._step_copied_keep = getattr(self, "_step_copied_keep", []) + [val]   # (keeps the id alive)
                self._write(lhs, val)

        def nest(ls):
            if not ls:
                body()
                return
            ident, lo, hi = ls[0]
            a, b = self._eval(lo), self._eval(hi)
            for x in (a, b):
                if is_boolish(x) or not is_num(x) or isinstance(x, complex) or x != int(x):
                    raise Undefined("non-integral-loop-bound")
                if not isinstance(x, (int, np.integer)):
                    # range() of a float raises in Python and is fine in Fortran
                    raise Undefined("non-int-typed-loop-bound")
            for i in range(int(a), int(b)):
                self.store[ident] = i
                nest(ls[1:])
        nest(loops)
        for ident, _, _ in loops:
            self.store.pop(ident, None)

    # ---- steps
    def persistent(self):
        return {k: copyval(v) for k, v in self.store.items() if is_persistent(k)}

    def check_state_defined(self):
        for k, v in self.store.items():
            if is_persistent(k) and isinstance(v, np.ndarray) and not self.masks.elem_defined(v, None):
                raise Undefined("persistent-array-with-undefined-elements")

    def step(self):
        """One step; returns 'completed' | 'failed' | 'raised'."""
        name = self.next_phase
        if name not in self.phases:
            raise Undefined("unknown-phase")
        ph = self.phases[name]
        self.cur_phase = name
        self.next_phase = ph["next"]
        self.step_starts.append((name, self.persistent()))
        self.step_writes.append({})
        self._step_copied = set()
        self._step_copied_keep = []
        outcome = "completed"
        try:
            self.run_ops(ph["body"], True, set(), (name,))
            self.full_at_end.append({k: copyval(v) for k, v in self.store.items()})
        except StepFail:
            outcome = "failed"
        except Switch as s:
            self.next_phase = s.phase
            self.full_at_end.append(None)
        except ProgramError as e:
            outcome = "raised"
            self.err = e.name
        finally:
            for k in list(self.store):
                if not is_persistent(k):
                    del self.store[k]
                    self.taint.pop(k, None)
        self.check_state_defined()
        if outcome == "failed":
            self.events.append(["failed", self.store["<t>"]])
            self.full_at_end.append(None)
        elif outcome == "completed":
            self.events.append(["completed", self.store["<dt>"], self.store["<t>"], name, self.next_phase])
        else:
            self.events.append(["raised", self.err])
            self.full_at_end.append(None)
        self.persist_after.append((self.persistent(), self.next_phase))
        self.step_no += 1
        return outcome

    def run(self, t_end=None, max_steps=None, event_cap=200):
        n = 0
        while True:
            if t_end is not None and self.store["<t>"] >= t_end:
                return "t_end"
            if max_steps is not None and n >= max_steps:
                return "max_steps"
            if len(self.events) >= event_cap:
                return "event_cap"
            try:
                o = self.step()
            except OverflowError as ex:
                # exact Python integers beyond the float range (i**j**k): no defined reference behaviour
                raise Undefined(f"integer overflow in the reference: {ex}")
            if o == "raised":
                return "raised"
            if o == "completed":
                n += 1
