"""R_tree (value part): independent top-to-bottom executor for dagrt's
structured programs (Block / IfThen / IfThenElse / ForLoop / StatementWrapper /
NullASTNode) with value semantics and an external-call log.  Expressions are
observed through vf.sexpr.from_pym (own isinstance dispatch) and evaluated by
the independent evaluator; functions are hash-based uninterpreted ones except
<builtin>array / <builtin>len, which need real arrays."""
import numpy as np

from dagrt.codegen import dag_ast as A
from vf.sexpr import Env, UFuncs, Undefined, ev, from_pym, is_boolish, is_num


class ReadBeforeSet(Exception):
    def __init__(self, name):
        self.name = name


class Stop(Exception):
    pass


class Funcs:
    def __init__(self, salt, log):
        self.u = UFuncs(salt, log)
        self.log = log

    def get(self, name, default=None):
        if name == "<builtin>array":
            def arr(n):
                self.log.append((name, (("n", float(n)),), ()))
                if n != int(n) or n < 0 or n > 64:
                    raise Undefined("array-size")
                return np.zeros(int(n))
            return arr
        if name == "<builtin>len":
            def ln(x):
                self.log.append((name, ("len",), ()))
                return int(np.size(x))
            return ln
        return self.u.get(name)


class Store(dict):
    pass


class TreeExec:
    def __init__(self, init, salt=7, introduced=()):
        self.store = {k: (v.copy() if isinstance(v, np.ndarray) else v) for k, v in init.items()}
        self.calls = []
        self.funcs = Funcs(salt, self.calls)
        self.external = []            # yields / fail / switch / raise, in order
        self.introduced = set(introduced)
        self.budget = 20000

    def env(self):
        ex = self

        class E(Env):
            def lookup(self_, name):
                if name not in ex.store:
                    raise ReadBeforeSet(name)
                return ex.store[name]
        return E(self.store, self.funcs)

    def evalp(self, e):
        if e is True or e is False:
            return e
        return ev(from_pym(e), self.env())

    def cond(self, c):
        v = self.evalp(c)
        if not is_boolish(v):
            raise Undefined("non-boolean-guard")
        return bool(v)

    def run(self, node):
        try:
            self.node(node)
        except Stop:
            pass

    def node(self, n):
        self.budget -= 1
        if self.budget < 0:
            raise Undefined("budget")
        if isinstance(n, A.Block):
            for c in n.children:
                self.node(c)
        elif isinstance(n, A.IfThenElse):
            if self.cond(n.condition):
                self.node(n.then)
            else:
                self.node(n.else_)
        elif isinstance(n, A.IfThen):
            if self.cond(n.condition):
                self.node(n.then)
        elif isinstance(n, A.ForLoop):
            lo, hi = self.evalp(n.lbound), self.evalp(n.ubound)
            for x in (lo, hi):
                if is_boolish(x) or not is_num(x) or x != int(x):
                    raise Undefined("loop-bound")
            for i in range(int(lo), int(hi)):
                self.store[n.loop_var_name] = i
                self.node(n.body)
        elif isinstance(n, A.NullASTNode):
            pass
        elif isinstance(n, A.StatementWrapper):
            self.stmt(n.statement)
        else:
            raise Undefined("unknown-node")

    def assign(self, name, sub, val):
        if isinstance(val, np.ndarray):
            val = val.copy()           # value semantics
        if sub is None:
            self.store[name] = val
            return
        if name not in self.store:
            raise ReadBeforeSet(name)
        agg = self.store[name]
        if not isinstance(agg, np.ndarray):
            raise Undefined("subscript-of-non-array")
        if is_boolish(sub) or not is_num(sub) or sub != int(sub) or not 0 <= int(sub) < len(agg):
            raise Undefined("subscript")
        if isinstance(val, np.ndarray) or is_boolish(val):
            raise Undefined("element-value")
        agg[int(sub)] = val

    def stmt(self, s):
        from dagrt.language import (Assign, AssignFunctionCall, FailStep, Nop, Raise, SwitchPhase, YieldState)
        import pymbolic.primitives as p
        c = getattr(s, "condition", True)
        if c is not True and not self.cond(c):
            return
        if isinstance(s, Assign):
            def body():
                sub = None
                if isinstance(s.lhs, p.Subscript):
                    idx = s.lhs.index
                    if isinstance(idx, tuple):
                        idx = idx[0]
                    sub = self.evalp(idx)
                self.assign(s.assignee, sub, self.evalp(s.rhs))

            def nest(loops):
                if not loops:
                    body()
                    return
                ident, lo, hi = loops[0]
                a, b = self.evalp(lo), self.evalp(hi)
                for x in (a, b):
                    if is_boolish(x) or not is_num(x) or x != int(x):
                        raise Undefined("loop-bound")
                for i in range(int(a), int(b)):
                    self.store[ident] = i
                    nest(loops[1:])
            nest(list(s.loops))
        elif isinstance(s, AssignFunctionCall):
            f = self.funcs.get(s.function_id)
            args = [self.evalp(a) for a in s.parameters]
            kw = {k: self.evalp(v) for k, v in s.kw_parameters.items()}
            res = f(*args, **kw)
            if len(s.assignees) == 1:
                self.assign(s.assignees[0], None, res)
            elif len(s.assignees) > 1:
                for i, a in enumerate(s.assignees):
                    self.assign(a, None, res + i)
        elif isinstance(s, YieldState):
            from vf.sexpr import _hkey
            self.external.append(("yield", s.component_id, s.time_id, _hkey(self.evalp(s.time)),
                                  _hkey(self.evalp(s.expression))))
        elif isinstance(s, FailStep):
            self.external.append(("fail",))
            raise Stop()
        elif isinstance(s, SwitchPhase):
            self.external.append(("switch", s.next_phase))
            raise Stop()
        elif isinstance(s, Raise):
            self.external.append(("raise", s.error_condition.__name__))
            raise Stop()
        elif isinstance(s, Nop):
            pass
        else:
            raise Undefined("unknown-statement")


def tree_names(node, names=None, ids=None):
    """Every variable name and statement id occurring anywhere in a tree."""
    from dagrt.utils import get_variables
    if names is None:
        names, ids = set(), set()

    def ex(e):
        if e is True or e is False or e is None:
            return
        try:
            names.update(get_variables(e))
        except Exception:
            pass
    if isinstance(node, A.Block):
        for c in node.children:
            tree_names(c, names, ids)
    elif isinstance(node, (A.IfThen, A.IfThenElse)):
        ex(node.condition)
        tree_names(node.then, names, ids)
        if isinstance(node, A.IfThenElse):
            tree_names(node.else_, names, ids)
    elif isinstance(node, A.ForLoop):
        names.add(node.loop_var_name)
        ex(node.lbound)
        ex(node.ubound)
        tree_names(node.body, names, ids)
    elif isinstance(node, A.StatementWrapper):
        s = node.statement
        ids.add(s.id)
        names.update(s.get_read_variables())
        names.update(s.get_written_variables())
        for i, lo, hi in getattr(s, "loops", []):
            names.add(i)
    return names, ids


def statements(node):
    if isinstance(node, A.StatementWrapper):
        yield node.statement
    elif isinstance(node, A.Block):
        for c in node.children:
            yield from statements(c)
    elif isinstance(node, A.IfThenElse):
        yield from statements(node.then)
        yield from statements(node.else_)
    elif isinstance(node, A.IfThen):
        yield from statements(node.then)
    elif isinstance(node, A.ForLoop):
        yield from statements(node.body)
