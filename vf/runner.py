"""Sharding, watchdogs, three-valued verdict, evidence and the
VIOLATION / KNOWN-FINDING protocol (DESIGN.md section 1.2, 1.3)."""
import concurrent.futures as cf
import hashlib
import importlib
import json
import os
import shutil
import signal
import subprocess
import sys
import tempfile
import time
from contextlib import contextmanager

from vf import VERIF_ROOT, REPO_ROOT

NCPU = min(16, os.cpu_count() or 4)


# {{{ helpers used inside workers

class CaseTimeout(Exception):
    pass


def _alarm_handler(signum, frame):
    raise CaseTimeout()


@contextmanager
def case_alarm(seconds):
    """Generous per-case wall-clock backstop.  A firing alarm is *inconclusive*
    (rec.timeout()), never a violation, except where the property itself is
    about termination (the driver decides)."""
    old = signal.signal(signal.SIGALRM, _alarm_handler)
    signal.setitimer(signal.ITIMER_REAL, seconds)
    try:
        yield
    finally:
        signal.setitimer(signal.ITIMER_REAL, 0)
        signal.signal(signal.SIGALRM, old)


def jhash(obj):
    s = json.dumps(obj, sort_keys=True, default=repr, separators=(",", ":"))
    return hashlib.blake2b(s.encode(), digest_size=6).hexdigest()


class Rec:
    """Per-shard recorder.  Everything in the evidence file is counted here."""

    MAX_SAMPLES = 3

    def __init__(self, prop_id, shard):
        self.prop_id = prop_id
        self.shard = shard
        self.evaluations = 0
        self.distinct_by_construction = 0
        self.hashes = set()
        self.samples = []
        self.counters = {}
        self.violations = {}   # mech -> dict
        self.undefined = {}
        self.timeouts = 0
        self.notes = []

    def case(self, case, nontrivial=True, evaluations=1, sample=None,
             by_construction=False):
        """by_construction=True: the driver enumerates a space in which every
        case is generated exactly once, so distinctness needs no hash."""
        self.evaluations += evaluations
        if nontrivial and by_construction:
            self.distinct_by_construction += 1
            if len(self.samples) < self.MAX_SAMPLES:
                self.samples.append(sample if sample is not None else case)
        elif nontrivial:
            h = jhash(case)
            if h not in self.hashes:
                self.hashes.add(h)
                if len(self.samples) < self.MAX_SAMPLES:
                    self.samples.append(sample if sample is not None else case)

    def count(self, name, n=1):
        self.counters[name] = self.counters.get(name, 0) + n

    def cmax(self, name, v):
        self.counters[name] = max(self.counters.get(name, v), v)

    def undef(self, reason):
        self.undefined[reason] = self.undefined.get(reason, 0) + 1

    def timeout(self):
        self.timeouts += 1

    def violation(self, mech, reason, witness):
        """mech: mechanism key from the per-property classifier (never a seed
        or hash).  Keeps the smallest witness seen per mechanism."""
        size = len(json.dumps(witness, default=repr))
        cur = self.violations.get(mech)
        if cur is None:
            self.violations[mech] = {"mech": mech, "reason": reason,
                                     "witness": witness, "n": 1, "size": size}
        else:
            cur["n"] += 1
            if size < cur["size"]:
                cur.update(reason=reason, witness=witness, size=size)

    def result(self):
        return {
            "evaluations": self.evaluations,
            "hashes": sorted(self.hashes),
            "distinct_by_construction": self.distinct_by_construction,
            "samples": self.samples,
            "counters": self.counters,
            "violations": list(self.violations.values()),
            "undefined": self.undefined,
            "timeouts": self.timeouts,
            "notes": self.notes[:20],
        }

# }}}


# {{{ reach counters (sys.monitoring, local PY_START events only)

class Reach:
    def __init__(self, anchors):
        self.counts = {a: 0 for a in anchors}
        self.missing = []
        self._code2name = {}
        mon = getattr(sys, "monitoring", None)
        if mon is None:
            self.missing = list(anchors)
            return
        self.tool = mon.PROFILER_ID
        try:
            mon.use_tool_id(self.tool, "vf-reach")
        except ValueError:
            pass
        for a in anchors:
            code = self._resolve(a)
            if code is None:
                self.missing.append(a)
                continue
            self._code2name[code] = a
            mon.set_local_events(self.tool, code, mon.events.PY_START)

        def cb(code, offset):
            n = self._code2name.get(code)
            if n is not None:
                self.counts[n] += 1

        mon.register_callback(self.tool, mon.events.PY_START, cb)

    @staticmethod
    def _resolve(anchor):
        modname, _, qual = anchor.partition(":")
        try:
            obj = importlib.import_module(modname)
            for part in qual.split("."):
                if isinstance(obj, type):
                    obj = obj.__dict__[part]
                else:
                    obj = getattr(obj, part)
        except Exception:
            return None
        seen = 0
        while seen < 10:
            seen += 1
            if isinstance(obj, (staticmethod, classmethod)):
                obj = obj.__func__
            elif isinstance(obj, property):
                obj = obj.fget
            elif hasattr(obj, "__wrapped__"):
                obj = obj.__wrapped__
            elif hasattr(obj, "func") and not hasattr(obj, "__code__"):
                obj = obj.func
            else:
                break
        return getattr(obj, "__code__", None)

# }}}


# {{{ parent side

def load_known():
    p = os.path.join(VERIF_ROOT, "known_findings.json")
    if not os.path.exists(p):
        return []
    with open(p) as f:
        return json.load(f).get("findings", [])


def _run_one(prop_id, shard, tmpdir, idx, timeout, hashseed):
    sf = os.path.join(tmpdir, f"s{idx}.json")
    of = os.path.join(tmpdir, f"o{idx}.json")
    with open(sf, "w") as f:
        json.dump(shard, f)
    env = dict(os.environ)
    env["PYTHONHASHSEED"] = str(shard.get("hashseed", hashseed))
    env["PYTHONPATH"] = VERIF_ROOT + os.pathsep + env.get("PYTHONPATH", "")
    env.setdefault("OMP_NUM_THREADS", "1")
    env.setdefault("OPENBLAS_NUM_THREADS", "1")
    env["PYTHONDONTWRITEBYTECODE"] = "1"
    t0 = time.time()
    try:
        p = subprocess.run(
            [sys.executable, "-m", "vf.worker", prop_id, sf, of],
            env=env, cwd=VERIF_ROOT, capture_output=True, text=True,
            timeout=timeout)
    except subprocess.TimeoutExpired:
        return {"shard": shard, "status": "timeout", "wall": time.time() - t0}
    if p.returncode != 0 or not os.path.exists(of):
        return {"shard": shard, "status": "crash", "rc": p.returncode,
                "stderr": (p.stderr or "")[-3000:], "wall": time.time() - t0}
    with open(of) as f:
        res = json.load(f)
    res["status"] = "ok"
    res["shard"] = shard
    res["wall"] = time.time() - t0
    return res


def write_evidence(prop_id, mod, tier, seed, cov, assumptions, wall, nviol):
    ev = {
        "property_id": prop_id,
        "tier": tier,
        "seed": int(seed),
        "level": mod.LEVEL,
        "coverage": cov,
        "assumptions": assumptions,
        "wall_s": round(wall, 2),
        "violations": int(nviol),
    }
    os.makedirs(os.path.join(VERIF_ROOT, "evidence"), exist_ok=True)
    path = os.path.join(VERIF_ROOT, "evidence", f"{prop_id}.json")
    tmp = path + ".tmp"
    with open(tmp, "w") as f:
        json.dump(ev, f, indent=1, default=repr)
    os.replace(tmp, path)
    return path


def run_check(prop_id, tier="quick", seed=0, only_shards=None):
    t0 = time.time()
    mod = importlib.import_module(f"vf.props.{prop_id.lower()}")
    shards = mod.plan(tier, seed)
    if only_shards is not None:
        shards = [s for i, s in enumerate(shards) if i in only_shards]
    timeout = getattr(mod, "SHARD_TIMEOUT", {}).get(tier, 900)
    base = "/dev/shm" if os.path.isdir("/dev/shm") else None
    tmpdir = tempfile.mkdtemp(prefix=f"vf-{prop_id}-", dir=base)
    results = []
    try:
        with cf.ThreadPoolExecutor(NCPU) as ex:
            futs = [ex.submit(_run_one, prop_id, s, tmpdir, i, timeout, 0)
                    for i, s in enumerate(shards)]
            for fu in futs:
                results.append(fu.result())
    finally:
        shutil.rmtree(tmpdir, ignore_errors=True)

    # ---- aggregate
    evaluations = 0
    dbc = 0
    hashes = set()
    samples = []
    counters = {}
    undefined = {}
    timeouts = 0
    reach = {}
    reach_missing = set()
    viol = {}
    bad_shards = []
    notes = []
    for r in results:
        if r["status"] != "ok":
            bad_shards.append({k: r.get(k) for k in ("status", "rc", "stderr", "shard")})
            continue
        evaluations += r["evaluations"]
        hashes.update(r["hashes"])
        dbc += r.get("distinct_by_construction", 0)
        for s in r["samples"]:
            if len(samples) < 5:
                samples.append(s)
        for k, v in r["counters"].items():
            if k.startswith("max_"):
                counters[k] = max(counters.get(k, v), v)
            else:
                counters[k] = counters.get(k, 0) + v
        for k, v in r["undefined"].items():
            undefined[k] = undefined.get(k, 0) + v
        timeouts += r["timeouts"]
        for k, v in r.get("reach", {}).items():
            reach[k] = reach.get(k, 0) + v
        reach_missing.update(r.get("reach_missing", []))
        notes.extend(r.get("notes", []))
        for v in r["violations"]:
            cur = viol.get(v["mech"])
            if cur is None:
                viol[v["mech"]] = dict(v)
            else:
                cur["n"] += v["n"]
                if v["size"] < cur["size"]:
                    n = cur["n"]
                    cur.update(v)
                    cur["n"] = n

    known = [k for k in load_known() if k.get("property") == prop_id]
    open_keys = {k["key"]: k for k in known if k.get("status") == "open"}

    lines = []
    new_viol = []
    known_hit = []
    for mech, v in sorted(viol.items()):
        if mech in open_keys:
            known_hit.append(mech)
            lines.append(f"KNOWN-FINDING: property={prop_id} {open_keys[mech]['what']}"
                         f" [key={mech}, seen {v['n']}x]")
        else:
            d = os.path.join(VERIF_ROOT, "replay", prop_id)
            os.makedirs(d, exist_ok=True)
            import re
            safe = re.sub(r"[^A-Za-z0-9_.+-]", "_", mech)[:80]
            path = os.path.join(d, f"{safe}-{jhash(v['witness'])}.json")
            with open(path, "w") as f:
                json.dump({"property": prop_id, "mech": mech, "reason": v["reason"],
                           "tier": tier, "seed": seed, "witness": v["witness"]},
                          f, indent=1, default=repr)
            new_viol.append((mech, v, path))

    # ---- inconclusive?
    inconcl = []
    if bad_shards:
        inconcl.append(f"{len(bad_shards)} shard(s) crashed or timed out")
    min_nt = getattr(mod, "MIN_NONTRIVIAL", {}).get(tier, 2)
    n_distinct = len(hashes) + dbc
    if n_distinct < min_nt:
        inconcl.append(f"only {n_distinct} distinct non-trivial cases (< {min_nt})")
    if evaluations and timeouts > 0.10 * evaluations:
        inconcl.append(f"{timeouts} of {evaluations} cases hit the watchdog")
    for a in getattr(mod, "ANCHORS", []):
        if a in reach_missing:
            continue   # anchor renamed: reported, behavioural oracle still decides
        if reach.get(a, 0) == 0:
            inconcl.append(f"deciding anchor never reached: {a}")
    for cname in getattr(mod, "REQUIRED_COUNTERS", {}).get(tier, []):
        if counters.get(cname, 0) == 0:
            inconcl.append(f"monitor counter is zero: {cname}")

    cov = {
        "evaluations": evaluations,
        "distinct_nontrivial": n_distinct,
        "distinct_by_hash": len(hashes),
        "distinct_by_construction": dbc,
        "rule": mod.RULE,
        "samples": samples,
        "exhaustive": False,
        "counters": counters,
        "undefined_excluded": undefined,
        "case_timeouts": timeouts,
        "reach": reach,
        "anchors_not_found": sorted(reach_missing),
        "shards": len(shards),
        "shards_failed": bad_shards[:3],
        "known_findings_matched": known_hit,
        "violations_new": [{"mech": m, "n": v["n"], "reason": v["reason"]}
                           for m, v, _ in new_viol],
        "verdict": ("violated" if new_viol else
                    "inconclusive" if inconcl else "held on what was observed"),
        "inconclusive_reasons": inconcl,
    }
    if hasattr(mod, "coverage_extra"):
        cov.update(mod.coverage_extra(tier, counters))
    wall = time.time() - t0
    write_evidence(prop_id, mod, tier, seed, cov,
                   list(getattr(mod, "ASSUMPTIONS", [])), wall, len(new_viol))

    for ln in lines:
        print(ln)
    summary = (f"[{prop_id}] tier={tier} seed={seed} evals={evaluations} "
               f"distinct_nontrivial={n_distinct} undefined={sum(undefined.values())} "
               f"timeouts={timeouts} wall={wall:.1f}s")
    print(summary)
    keyc = {k: v for k, v in counters.items()}
    if keyc:
        print(f"[{prop_id}] monitors: " + ", ".join(f"{k}={v}" for k, v in sorted(keyc.items())))
    if new_viol:
        for mech, v, path in new_viol:
            print(f"[{prop_id}] mechanism={mech} seen={v['n']}x: {v['reason']}")
            print(f"VIOLATION property={prop_id} replay={path}")
        return 1
    if inconcl:
        for b in bad_shards[:2]:
            sys.stderr.write(f"shard {b.get('status')}: {b.get('stderr')}\n")
        print(f"INCONCLUSIVE property={prop_id} reason=" + "; ".join(inconcl))
        return 2
    return 0


def run_replay(prop_id, path):
    from vf import bootstrap
    from vf.deps import ensure
    ensure()
    bootstrap()
    mod = importlib.import_module(f"vf.props.{prop_id.lower()}")
    with open(path) as f:
        doc = json.load(f)
    rec = Rec(prop_id, {"replay": path})
    mod.replay(doc["witness"], rec)
    res = rec.result()
    if res["violations"]:
        for v in res["violations"]:
            print(f"[{prop_id}] replay: mechanism={v['mech']}: {v['reason']}")
        print(f"VIOLATION property={prop_id} replay={path}")
        return 1
    print(f"[{prop_id}] replay: no violation on this witness")
    return 0

# }}}
