"""Observers for the real backends: run a built DAG in the NumPy interpreter
and in the class emitted by the Python generator and record, in the encoding
of vf.rseq, the event list and the persistent store after every step."""
import copy
from itertools import islice

import numpy as np

from vf.rseq import copyval, is_persistent
from vf.sexpr import from_jsonable, values_equal


class RecStore(dict):
    """dict subclass installed as the interpreter's variable store: logs
    reads, writes and deletions with the id of the statement being executed."""

    def __init__(self, *a, **kw):
        super().__init__(*a, **kw)
        self.cur = None
        self.log = []      # (stmt_id, "r"|"w"|"d", name)
        self.enabled = True

    def __getitem__(self, k):
        if self.enabled:
            self.log.append((self.cur, "r", k))
        return super().__getitem__(k)

    def __setitem__(self, k, v):
        if self.enabled:
            self.log.append((self.cur, "w", k))
        super().__setitem__(k, v)

    def __delitem__(self, k):
        if self.enabled:
            self.log.append((self.cur, "d", k))
        super().__delitem__(k)

    def pop(self, k, *d):
        if self.enabled and k in self:
            self.log.append((self.cur, "d", k))
        return super().pop(k, *d)


def encode_event(ev):
    nm = type(ev).__name__
    if nm == "StateComputed":
        return ["yield", ev[0], ev[1], ev[2], copyval(ev[3])]
    if nm == "StepCompleted":
        return ["completed", ev[0], ev[1], ev[2], ev[3]]
    if nm == "StepFailed":
        return ["failed", ev[0]]
    return ["unknown-event", nm]


def initial_context(script):
    return {k: copyval(from_jsonable(v)) for k, v in script["state"].items()}


def run_kwargs(script):
    r = script["run"]
    return {"max_steps": r.get("max_steps"), "t_end": r.get("t_end")}


class Result:
    def __init__(self):
        self.events = []
        self.persist_after = []     # list of (dict, next_phase)
        self.crash = None           # (type name, message) for non-program exceptions
        self.stray_keys = []        # non-persistent keys seen in the interpreter store at a step boundary


def _collect(gen, cap, snapshot, res, is_program_error):
    try:
        for ev in islice(gen, cap):
            e = encode_event(ev)
            res.events.append(e)
            if e[0] in ("completed", "failed"):
                res.persist_after.append(snapshot())
    except Exception as ex:      # noqa: BLE001 -- everything is observed
        name = is_program_error(ex)
        if name is not None:
            res.events.append(["raised", name])
            res.persist_after.append(snapshot())
        else:
            res.crash = (type(ex).__name__, str(ex)[:300])
            import traceback
            res.crash_tb = traceback.format_exc()[-1500:]
    return res


def run_interpreter(dag, script, funcs, recstore=False, interp_hook=None):
    from dagrt.exec_numpy import NumpyInterpreter
    interp = NumpyInterpreter(dag, funcs)
    if recstore:
        st = RecStore()
        interp.context = st
        interp.eval_mapper.context = st
    if interp_hook is not None:
        interp_hook(interp)
    interp.set_up(script["t0"], script["dt0"], initial_context(script))
    res = Result()
    res.interp = interp

    def snapshot():
        ctx = interp.context
        en = getattr(ctx, "enabled", None)
        if en is not None:
            ctx.enabled = False
        try:
            for k in list(ctx.keys()):
                if not is_persistent(k):
                    res.stray_keys.append(k)
            return ({k: copyval(v) for k, v in ctx.items() if is_persistent(k)}, interp.next_phase)
        finally:
            if en is not None:
                ctx.enabled = en

    def is_program_error(ex):
        return type(ex).__name__ if getattr(type(ex), "_vf_program_error", False) else None
    return _collect(interp.run(**run_kwargs(script)), script.get("event_cap", 60), snapshot, res,
                    is_program_error)


def run_generated(dag, script, funcs, class_name="Method", keep=False):
    from dagrt.codegen import PythonCodeGenerator
    cg = PythonCodeGenerator(class_name=class_name)
    res = Result()
    try:
        cls = cg.get_class(dag)
    except Exception as ex:      # noqa: BLE001
        res.crash = ("codegen:" + type(ex).__name__, str(ex)[:300])
        import traceback
        res.crash_tb = traceback.format_exc()[-1500:]
        return res
    gmap = dict(cg._name_manager._global_map._dict)
    obj = cls(funcs)
    obj.set_up(script["t0"], script["dt0"], initial_context(script))
    res.obj = obj
    res.gmap = gmap
    missing = object()

    def snapshot():
        out = {}
        for ir, py in gmap.items():
            v = getattr(obj, py[len("self."):], missing)
            if v is not missing:
                out[ir] = copyval(v)
        return (out, obj.next_phase)

    def is_program_error(ex):
        if type(ex).__name__ == "StepError" and hasattr(ex, "condition"):
            return ex.condition
        return None
    return _collect(obj.run(**run_kwargs(script)), script.get("event_cap", 60), snapshot, res,
                    is_program_error)


def rseq_result(script, fault=None, trace=False):
    """Run the reference; returns (RSeq, Result) or raises Undefined."""
    from vf.rseq import RSeq
    r = RSeq(script, fault=fault, trace_stmts=trace)
    kw = run_kwargs(script)
    r.run(t_end=kw["t_end"], max_steps=kw["max_steps"], event_cap=script.get("event_cap", 60))
    res = Result()
    cap = script.get("event_cap", 60)
    res.events = [e[:5] if e[0] == "yield" else e for e in r.events][:cap]
    # snapshots belong to step-ending events; keep those whose event is inside the cap
    enders = [i for i, e in enumerate(r.events) if e[0] in ("completed", "failed", "raised")]
    res.persist_after = [pa for i, pa in zip(enders, r.persist_after) if i < cap]
    return r, res


def first_difference(a, b, la, lb, rtol=1e-9):
    """Compare two Results field by field; returns None or a description."""
    n = min(len(a.events), len(b.events))
    for i in range(n):
        ea, eb = a.events[i], b.events[i]
        if ea[0] != eb[0]:
            return ("event-kind", f"event {i}: {la} has {fmt(ea)}, {lb} has {fmt(eb)}")
        for j, (x, y) in enumerate(zip(ea[1:], eb[1:])):
            if not values_equal(x, y, rtol=rtol):
                field = {"yield": ["t", "time_id", "component", "value"],
                         "completed": ["dt", "t", "current_phase", "next_phase"],
                         "failed": ["t"], "raised": ["error"]}.get(ea[0], ["?"] * 9)[j]
                return (f"{ea[0]}-{field}", f"event {i} ({ea[0]}) field {field}: {la}={x!r}, {lb}={y!r}")
    if len(a.events) != len(b.events):
        longer, ll = (a, la) if len(a.events) > len(b.events) else (b, lb)
        return ("event-count", f"{la} produced {len(a.events)} events, {lb} produced {len(b.events)}; "
                f"first extra in {ll}: {fmt(longer.events[n])}")
    m = min(len(a.persist_after), len(b.persist_after))
    for i in range(m):
        (sa, na), (sb, nb) = a.persist_after[i], b.persist_after[i]
        if na != nb:
            return ("next-phase", f"after step {i}: next phase {la}={na!r}, {lb}={nb!r}")
        for k in sorted(set(sa) | set(sb)):
            if k not in sa or k not in sb:
                return ("persistent-variable-missing",
                        f"after step {i}: {k} present in {la}: {k in sa}, in {lb}: {k in sb}")
            if not values_equal(sa[k], sb[k], rtol=rtol):
                return ("persistent-value", f"after step {i}: {k}: {la}={sa[k]!r}, {lb}={sb[k]!r}")
    if len(a.persist_after) != len(b.persist_after):
        return ("step-count", f"{la} finished {len(a.persist_after)} steps, {lb} {len(b.persist_after)}")
    return None


def fmt(e):
    return "[" + ", ".join(repr(x) if not isinstance(x, np.ndarray) else repr(x.tolist()) for x in e) + "]"


# {{{ driving one step statement by statement (C02 schedule explorer, C08 access log)

def array_fingerprints(ctx):
    out = {}
    for k, v in dict.items(ctx):
        if isinstance(v, np.ndarray):
            out[k] = (id(v), v.tobytes())
    return out


class StepDriver:
    """Executes the statements of one phase in a caller-chosen order through
    the real interpreter's own evaluate_condition / exec_* methods, with a
    RecStore bracketing every statement."""

    def __init__(self, dag, script, funcs, phase_name=None, state_override=None, persist_override=None):
        from dagrt.exec_numpy import NumpyInterpreter
        self.dag = dag
        self.interp = NumpyInterpreter(dag, funcs)
        self.store = RecStore()
        self.interp.context = self.store
        self.interp.eval_mapper.context = self.store
        self.store.enabled = False
        ctx = initial_context(script)
        if state_override:
            for k, v in state_override.items():
                if k in ctx:
                    ctx[k] = copyval(v)
        self.interp.set_up(script["t0"], script["dt0"], ctx)
        if persist_override:
            for k in [k for k in dict.keys(self.store)]:
                if k not in persist_override:
                    dict.__delitem__(self.store, k)
            for k, v in persist_override.items():
                dict.__setitem__(self.store, k, copyval(v))
        self.phase = dag.phases[phase_name or script["initial"]]
        self.id_to_stmt = {s.id: s for s in self.phase.statements}

    def run(self, order):
        """Returns dict(outcome, events, store, per_stmt={id: (reads, writes)}, crash)."""
        from dagrt.exec_numpy import FailStepException, TransitionEvent
        st = self.store
        events = []
        per = {}
        outcome = "completed"
        crash = None
        executed = []
        try:
            for sid in order:
                stmt = self.id_to_stmt[sid]
                before = array_fingerprints(st)
                st.cur = sid
                mark = len(st.log)
                st.enabled = True
                try:
                    if self.interp.evaluate_condition(stmt):
                        r = getattr(self.interp, stmt.exec_method)(stmt)
                        executed.append(sid)
                        if r is not None:
                            ev, _new = r
                            if ev is not None:
                                events.append(encode_event(ev))
                finally:
                    st.enabled = False
                    reads = {n for (_, k, n) in st.log[mark:] if k == "r"}
                    writes = {n for (_, k, n) in st.log[mark:] if k in ("w", "d")}
                    after = array_fingerprints(st)
                    for k, (ident, data) in after.items():
                        b = before.get(k)
                        if b is not None and b[0] == ident and b[1] != data:
                            writes.add(k)          # in-place element write
                    per[sid] = (reads, writes)
        except FailStepException:
            outcome = "failed"
        except TransitionEvent as t:
            outcome = "switched:" + str(t.next_phase)
        except Exception as ex:      # noqa: BLE001
            if getattr(type(ex), "_vf_program_error", False):
                outcome = "raised:" + type(ex).__name__
            else:
                outcome = "crash"
                crash = (type(ex).__name__, str(ex)[:300])
        full = {k: copyval(v) for k, v in dict.items(st)}
        return {"outcome": outcome, "events": events, "store": full, "per_stmt": per, "crash": crash,
                "executed": executed}


def program_order(phase):
    """Builder ids are '<phase>_<n>': program order = numeric order of n."""
    def key(sid):
        head, _, tail = sid.rpartition("_")
        return (int(tail) if tail.isdigit() else 10 ** 9, sid)
    return sorted((s.id for s in phase.statements), key=key)

# }}}
