"""G_prog — generator of builder *scripts* and their replay through the real
CodeBuilder (DESIGN 1.4).  A script is JSON: it can be replayed through dagrt
and executed by vf.rseq.RSeq without touching dagrt.

op := ["assign", lhs, sub|None, rhs, loops, s]          s=1: operands handed to the builder as strings
    | ["call", [lhs...], fname, [args], {kw}, s]
    | ["if", cond, [then ops], [between ops], [else ops]|None, s]
    | ["yield", expr, component, time, time_id, s]
    | ["fail"] | ["switch", phase] | ["restart"] | ["raise", errname, msg]
"""
import random

from vf.sexpr import srcable, to_pym, to_src, variables

LOCAL_NAMES = ["x", "y", "z", "w", "tmp", "tmp_0", "temp", "temp_0", "temp_y", "local_x", "ifthenelse_result",
               "cond_a", "y_0", "Y", "u", "v", "q", "r"]
WEIRD_LOCALS = ["y^", "y*", "x'"]
ARR_NAMES = ["a", "b", "arr", "vec", "tmp_a"]
BOOL_NAMES = ["flag", "ok", "<cond>user"]
COUNTERS = ["i", "j", "ii"]
CONSTS = [2, 3, 0.5, 1.5, -1.5, 0.25, -2, 4, 2.5, -0.5]
ERRS = ["ValueError", "RuntimeError", "ArithmeticError", "KeyError"]


class Scope:
    """Definitely-assigned variables at the current program point."""

    def __init__(self, nums=(), arrs=None, bools=(), ints=()):
        self.nums = list(nums)
        self.arrs = dict(arrs or {})       # name -> length
        self.bools = list(bools)
        self.ints = list(ints)             # int-typed scalars (usable as bounds/subscripts)
        self.counters = {}                 # loop counter -> (lo, hi) known constant range or None

    def copy(self):
        s = Scope(self.nums, self.arrs, self.bools, self.ints)
        s.counters = dict(self.counters)
        return s

    def meet(self, a, b):
        """After if/else: defined on both paths."""
        self.nums = [n for n in a.nums if n in b.nums]
        self.arrs = {n: l for n, l in a.arrs.items() if b.arrs.get(n) == l}
        self.bools = [n for n in a.bools if n in b.bools]
        self.ints = [n for n in a.ints if n in b.ints]

    def kill(self, name):
        for l in (self.nums, self.bools, self.ints):
            if name in l:
                l.remove(name)
        self.arrs.pop(name, None)


class Gen:
    def __init__(self, rng, profile="py", tag_calls=False, max_ops=12, nphases=None, allow_end=True,
                 weird_names=True, persistent_arrays=True, multi_result=True, persist_tag="",
                 readonly_state=(), advance_time=True, phase_plan=None, components=None, funcs=None,
                 ifexpr=True, call_bias=0.0, counters=None, extra_locals=(), containers=False, lookups=False, shadow_funcs=False, local_time_bias=0.25, stencil_bias=0.3):
        self.shadow_funcs = shadow_funcs
        self.containers = containers
        self.lookups = lookups
        self.ifexpr = ifexpr
        self.call_bias = call_bias
        self.local_time_bias = local_time_bias
        self.stencil_bias = stencil_bias
        self.counters = list(counters or COUNTERS)
        self.extra_locals = list(extra_locals)
        self.persist_tag = persist_tag
        self.readonly_state = list(readonly_state)
        self.advance_time = advance_time
        self.phase_plan = phase_plan
        self.components = components or ["y", "state", "aux_2"]
        self.rng = rng
        self.profile = profile
        self.tag_calls = tag_calls
        self.max_ops = max_ops
        self.nphases = nphases
        self.allow_end = allow_end
        self.weird_names = weird_names
        self.persistent_arrays = persistent_arrays
        self.multi_result = multi_result
        self.site = 0
        self.funcs = funcs if funcs is not None else {}
        self.fresh_id = 0
        self.used_cond = set()
        self.used_names = set()
        self.banned = set()

    # {{{ expressions

    def const(self):
        return ["num", self.rng.choice(CONSTS)]

    def num_leaf(self, sc, exact=False):
        rng = self.rng
        r = rng.random()
        pool = list(sc.nums) + list(sc.ints)
        if r < 0.25 or not pool:
            return self.const()
        if r < 0.35 and sc.counters:
            return ["var", rng.choice(list(sc.counters))]
        v = ["var", rng.choice(pool)]
        if self.lookups and rng.random() < 0.2 and not v[1].startswith("$"):
            return ["lookup", v, "real"]         # 'y.real': the variable is read through an attribute lookup
        return v

    def int_expr(self, sc, lo=0, hi=None):
        """int-typed expression (subscripts, bounds)."""
        rng = self.rng
        r = rng.random()
        if sc.ints and r < 0.3:
            return ["var", rng.choice(sc.ints)]
        return ["num", rng.randint(lo, hi if hi is not None else lo + 3)]

    def index_for(self, sc, length):
        """Subscript expression guaranteed in [0, length)."""
        rng = self.rng
        cands = [c for c, rngs in sc.counters.items()
                 if rngs is not None and rngs[0] >= 0 and rngs[1] <= length]
        r = rng.random()
        if cands and r < 0.6:
            c = rng.choice(cands)
            lo, hi = sc.counters[c]
            if hi < length and rng.random() < 0.2:
                return ["+", ["var", c], ["num", length - hi]]
            return ["var", c]
        return ["num", rng.randrange(length)]

    def num_expr(self, sc, d):
        rng = self.rng
        if self.call_bias and d > 0 and rng.random() < self.call_bias:
            return self.ucall_scalar(sc, d)
        r = rng.random()
        if d <= 0 or r < 0.2:
            return self.num_leaf(sc)
        if r < 0.36:
            n = rng.choice([2, 2, 3])
            ch = [self.num_expr(sc, d - 1) for _ in range(n)]
            return self.mk_sum(ch, sc)
        if r < 0.5:
            n = rng.choice([2, 2, 3])
            ch = [self.num_expr(sc, d - 1) for _ in range(n)]
            return self.mk_prod(ch, sc)
        if r < 0.57:
            return ["-", self.num_expr(sc, d - 1), self.nosum(self.num_expr(sc, d - 1), sc)]
        if r < 0.61:
            return ["neg", self.num_expr(sc, d - 1)]
        if r < 0.68:
            den = rng.choice([["num", 2], ["num", 4], ["num", -2], ["num", 0.5], None])
            if den is None:
                x = self.num_leaf(sc)
                den = ["+", ["*", x, x], ["num", 2]]
            return ["/", self.num_expr(sc, d - 1), den]
        if r < 0.75:
            base = self.num_expr(sc, d - 1)
            if rng.random() < 0.25:
                base = ["num", rng.choice([-1.5, -2, 2, 0.5])]
            return ["**", base, ["num", rng.choice([2, 3, 2])]]
        if r < 0.8:
            return [rng.choice(["min", "max"]), self.num_expr(sc, d - 1), self.num_expr(sc, d - 1)]
        if r < 0.86 and self.ifexpr:
            q = rng.random()
            if q < 0.25:
                # a conditional nested in the THEN branch (or the condition): needs its parentheses when printed
                x = self.num_leaf(sc)
                inner = ["if", ["cmp", rng.choice(["<", ">", "<=", ">="]), x, self.num_leaf(sc)],
                         self.num_expr(sc, max(d - 2, 0)), self.num_expr(sc, max(d - 2, 0))]
                outer_c = ["cmp", rng.choice(["<", ">", "<=", ">="]), self.num_leaf(sc), self.num_leaf(sc)]
                return ["if", outer_c, inner, self.num_expr(sc, max(d - 2, 0))]
            return ["if", self.bool_expr(sc, d - 1), self.num_expr(sc, d - 1), self.num_expr(sc, d - 1)]
        if r < 0.92 and sc.arrs:
            a = rng.choice(sorted(sc.arrs))
            c = rng.random()
            if c < 0.45:
                return ["sub", ["var", a], self.index_for(sc, sc.arrs[a])]
            if c < 0.75:
                return self.bcall(rng.choice(["<builtin>norm_2", "<builtin>norm_1", "<builtin>norm_inf"]),
                                  [["var", a]])
            if c < 0.87:
                return self.bcall("<builtin>len", [["var", a]])
            same = [b for b, l in sc.arrs.items() if l == sc.arrs[a]]
            return self.bcall("<builtin>dot_product", [["var", a], ["var", rng.choice(same)]])
        if r < 0.97:
            return self.ucall_scalar(sc, d)
        return self.bcall("<builtin>norm_2", [self.num_expr(sc, d - 1)])

    def nosum(self, e, sc):
        return e if e[0] not in ("+", "-") else self.num_leaf(sc)

    def mk_sum(self, ch, sc):
        # keep sums flat-safe: a nested sum may only be the first child (pymbolic's
        # flatten, applied by Assign, would otherwise re-associate it)
        out = [ch[0]] + [self.nosum(c, sc) for c in ch[1:]]
        out = [c if not (c[0] == "num" and c[1] in (0, 1)) else ["num", 2] for c in out]
        return ["+"] + out

    def mk_prod(self, ch, sc):
        out = [ch[0]] + [c if c[0] != "*" else self.num_leaf(sc) for c in ch[1:]]
        out = [c if not (c[0] == "num" and c[1] in (0, 1)) else ["num", 3] for c in out]
        return ["*"] + out

    def bool_expr(self, sc, d):
        rng = self.rng
        r = rng.random()
        if sc.bools and r < 0.12:
            return ["var", rng.choice(sc.bools)]
        if d <= 0 or r < 0.55:
            op = rng.choice(["<", "<=", ">", ">=", "==", "!="])
            return ["cmp", op, self.num_expr(sc, max(d - 1, 0)), self.num_expr(sc, max(d - 1, 0))]
        if r < 0.7:
            return ["and"] + [self.bool_expr(sc, d - 1) for _ in range(rng.choice([2, 2, 3]))]
        if r < 0.85:
            return ["or"] + [self.bool_expr(sc, d - 1) for _ in range(rng.choice([2, 2, 3]))]
        if r < 0.95:
            return ["not", self.bool_expr(sc, d - 1)]
        if sc.arrs and rng.random() < 0.5:
            return self.bcall("<builtin>isnan", [["var", rng.choice(sorted(sc.arrs))]])     # any NaN in the array?
        return self.bcall("<builtin>isnan", [self.num_expr(sc, d - 1)])

    def arr_expr(self, sc, d, length):
        rng = self.rng
        same = [a for a, l in sc.arrs.items() if l == length]
        if not same:
            return None
        r = rng.random()
        if d <= 0 or r < 0.15:
            # never a bare copy (aliasing): scale instead
            return ["*", ["num", rng.choice([2, 0.5, -1.5, 3])], ["var", rng.choice(same)]]
        if r < 0.4:
            return ["+", self.arr_expr(sc, d - 1, length), self.arr_atom(sc, same)]
        if r < 0.6:
            return ["*", self.num_expr(sc, d - 1), ["var", rng.choice(same)]]
        if r < 0.7:
            return ["-", self.arr_expr(sc, d - 1, length), self.arr_atom(sc, same)]
        if r < 0.8:
            return self.bcall("<builtin>elementwise_abs", [["var", rng.choice(same)]])
        if r < 0.92 and not (length == 4 and r >= 0.85):
            return self.ucall_vec(sc, d, rng.choice(same))
        if length == 4 and r < 0.97:
            # 2x2 matrices stored column-major in 4-element arrays
            a, b = rng.choice(same), rng.choice(same)
            q = rng.random()
            if q < 0.4:
                return self.bcall("<builtin>matmul", [["var", a], ["var", b], ["num", 2], ["num", 2]])
            if q < 0.6:
                return self.bcall("<builtin>linear_solve", [["var", a], ["var", b], ["num", 2], ["num", 2]])
            return self.bcall("<builtin>transpose", [["var", a], ["num", 2]])
        return ["neg", ["var", rng.choice(same)]]

    def arr_atom(self, sc, same):
        rng = self.rng
        if rng.random() < 0.5:
            return ["var", rng.choice(same)]
        return ["*", ["num", rng.choice([2, 0.5, -1.5])], ["var", rng.choice(same)]]

    def bcall(self, fname, args):
        """Built-in call; sometimes with (permuted) keyword arguments."""
        from vf.rseq import BUILTIN_ARGS
        rng = self.rng
        names = BUILTIN_ARGS[fname]
        npos = len(args) if rng.random() < 0.6 else rng.randint(0, len(args))
        if len(args) >= 2 and rng.random() < 0.3:
            npos = 0        # everything by keyword: 'matmul(b=v, a=u, b_cols=2, a_cols=2)'
        pos = args[:npos]
        kwitems = list(zip(names[npos:], args[npos:]))
        rng.shuffle(kwitems)
        if len(kwitems) >= 2 and rng.random() < 0.5:
            kwitems = kwitems[::-1] if kwitems == list(zip(names[npos:], args[npos:])) else kwitems
        return ["call", fname, pos, dict(kwitems)]

    def func(self, kind, nargs=None, nres=1):
        """Get or create a user function of the given kind."""
        rng = self.rng
        cands = [n for n, s in self.funcs.items() if s["kind"] == kind and s.get("nres", 1) == nres]
        if cands and rng.random() < 0.7:
            return rng.choice(cands)
        base = rng.choice(["f", "g", "rhs", "h^", "F"]) if self.weird_names else rng.choice(["f", "g", "rhs"])
        name = "<func>" + base
        if self.shadow_funcs and rng.random() < 0.6:
            # a user function registered under a plain name that the method also uses for a variable
            # ('limit <- limit(y)'): variables and functions live in separate namespaces
            name = rng.choice(LOCAL_NAMES[:12])
        while name in self.funcs:
            name += str(len(self.funcs))
        if kind == "scalar":
            na = nargs or rng.randint(1, 3)
            spec = {"kind": kind, "args": [f"a{i}" for i in range(na)],
                    "coef": [rng.choice([0.5, 1, -1, 2])] + [rng.choice([0.5, 2, -1.5, 1]) for _ in range(na)],
                    "nres": nres}
        else:
            spec = {"kind": kind, "args": ["t", "y"],
                    "coef": [rng.choice([0.5, 1, -1]), rng.choice([0.5, 2, -1]), rng.choice([-2, 0.5, 1.5])],
                    "nres": nres}
        self.funcs[name] = spec
        return name

    def _mkcall(self, fname, args):
        rng = self.rng
        spec = self.funcs[fname]
        names = spec["args"]
        npos = len(args) if rng.random() < 0.6 else rng.randint(0, len(args))
        kwitems = list(zip(names[npos:], args[npos:]))
        rng.shuffle(kwitems)
        kw = dict(kwitems)
        if self.tag_calls:
            self.site += 1
            kw["tag"] = ["num", self.site]
        return ["call", fname, args[:npos], kw]

    def ucall_scalar(self, sc, d):
        f = self.func("scalar")
        na = len(self.funcs[f]["args"])
        return self._mkcall(f, [self.num_expr(sc, d - 1) for _ in range(na)])

    def ucall_vec(self, sc, d, arr):
        f = self.func("vec")
        return self._mkcall(f, [self.num_expr(sc, d - 1), ["var", arr]])

    # }}}

    # {{{ statements

    def new_local(self, sc, pool):
        rng = self.rng
        names = list(pool)
        if pool is LOCAL_NAMES and self.extra_locals and rng.random() < 0.3:
            names = list(self.extra_locals)
        if self.weird_names and pool is LOCAL_NAMES and rng.random() < 0.08:
            names = WEIRD_LOCALS
        # names the builder may already have issued (or may issue) are off limits once it
        # has been asked: fresh_var_name only promises freshness w.r.t. names in use *then*
        ok = [n for n in names if n not in self.banned]
        n = rng.choice(ok or ["zz_plain"])
        self.used_names.add(n)
        return n

    def ban_like(self, prefix, force=False):
        for n in [prefix] + [f"{prefix}_{i}" for i in range(6)]:
            if force or n not in self.used_names:
                self.banned.add(n)

    def s(self, *exprs):
        """String mode flag: only when every operand can be written as source."""
        if self.rng.random() < 0.5:
            return 0
        return 1 if all(e is None or srcable(e) for e in exprs) else 0

    def op_assign_num(self, sc, persist):
        rng = self.rng
        if persist and rng.random() < 0.07:
            # a long flat sum (5-8 terms, user calls among the later ones) stored into a persistent variable
            # that the sum does not read
            lhs = rng.choice(persist["nums"])
            terms = []
            for k in range(rng.randint(5, 8)):
                for _ in range(6):
                    q = rng.random()
                    t = (self.ucall_scalar(sc, 1) if q < (0.25 if k < 4 else 0.6) else
                         self.mk_prod([self.num_leaf(sc), self.num_leaf(sc)], sc) if q < 0.8 else self.num_leaf(sc))
                    if lhs not in variables(t) and t[0] != "+":
                        break
                else:
                    t = self.const()
                terms.append(t)
            rhs = self.mk_sum(terms, sc)
            op = ["assign", lhs, None, rhs, [], self.s(rhs, ["var", lhs])]
            if lhs not in sc.nums:
                sc.nums.append(lhs)
            return op
        rhs = self.num_expr(sc, rng.choice([0, 1, 2, 2, 3]))
        if persist and rng.random() < 0.45:
            lhs = rng.choice(persist["nums"])
        else:
            lhs = self.new_local(sc, LOCAL_NAMES)
        if lhs in sc.arrs or lhs in sc.bools or lhs in sc.counters:
            sc.kill(lhs)
        op = ["assign", lhs, None, rhs, [], self.s(rhs, ["var", lhs])]
        if lhs not in sc.nums:
            sc.nums.append(lhs)
        if lhs in sc.ints:
            sc.ints.remove(lhs)
        return op

    def op_assign_int(self, sc):
        rng = self.rng
        lhs = rng.choice(["n", "m", "k0"])
        sc.kill(lhs)
        if sc.arrs and rng.random() < 0.3:
            rhs = self.bcall("<builtin>len", [["var", rng.choice(sorted(sc.arrs))]])
        else:
            rhs = ["num", rng.randint(0, 4)]
        sc.ints.append(lhs)
        return ["assign", lhs, None, rhs, [], self.s(rhs)]

    def op_assign_bool(self, sc):
        lhs = self.rng.choice(BOOL_NAMES)
        if lhs.startswith("<cond>"):
            # "<cond>NAME ... May not be re-defined": one definition per name.
            # Some look exactly like the names CodeBuilder.if_ generates.
            cands = [n for n in ("<cond>", "<cond>_0", "<cond>_1", "<cond>_2")
                     if n not in self.used_cond and n not in self.banned]
            if cands and self.rng.random() < 0.6:
                lhs = self.rng.choice(cands)
            else:
                self.fresh_id += 1
                lhs = f"{lhs}{self.fresh_id}"
            self.used_cond.add(lhs)
            self.used_names.add(lhs)
        sc.kill(lhs)
        rhs = self.bool_expr(sc, 1)
        sc.bools.append(lhs)
        return ["assign", lhs, None, rhs, [], self.s(rhs, ["var", lhs])]

    def op_new_array(self, sc, persist):
        """array(n) followed by a fill loop over the whole range."""
        rng = self.rng
        n = rng.choice([2, 3, 4])
        if persist and persist["arrs"] and rng.random() < 0.3:
            cands = [a for a, l in persist["arrs"].items() if l == n]
            lhs = rng.choice(cands) if cands else self.new_local(sc, ARR_NAMES)
        else:
            lhs = self.new_local(sc, ARR_NAMES)
        sc.kill(lhs)
        nexpr = ["num", n]
        if sc.ints and rng.random() < 0.0:
            pass
        alloc = ["call", [lhs], "<builtin>array", [nexpr], {}, self.s(nexpr, ["var", lhs])]
        c = rng.choice(self.counters)
        sc2 = sc.copy()
        sc2.counters[c] = (0, n)
        val = self.num_expr(sc2, rng.choice([0, 1, 2]))
        fill = ["assign", lhs, ["var", c], val, [[c, ["num", 0], ["num", n]]], self.s(val, ["var", lhs])]
        sc.arrs[lhs] = n
        return [alloc, fill]

    def op_assign_arr(self, sc, persist):
        rng = self.rng
        if not sc.arrs:
            return self.op_new_array(sc, persist)
        length = rng.choice(sorted(set(sc.arrs.values())))
        if rng.random() < 0.15:
            # the stage idiom: a local starts as a plain copy of an array (the same object, until it is re-bound)
            # and is then advanced by a two-term sum whose first term is the local itself
            same = [a for a, l in sc.arrs.items() if l == length]
            src = rng.choice(same)
            lhs = self.new_local(sc, ARR_NAMES)
            if lhs != src and lhs not in sc.nums and lhs not in sc.bools and lhs not in sc.counters:
                step = self.arr_atom(sc, same)
                sc.arrs[lhs] = length
                return [["assign", lhs, None, ["var", src], [], self.s()],
                        ["assign", lhs, None, ["+", ["var", lhs], step], [], self.s()]]
        rhs = self.arr_expr(sc, rng.choice([0, 1, 2]), length)
        if persist and rng.random() < 0.3:
            cands = [a for a, l in persist["arrs"].items() if l == length]
            lhs = rng.choice(cands) if cands else self.new_local(sc, ARR_NAMES)
        else:
            lhs = self.new_local(sc, ARR_NAMES)
        if lhs in sc.nums or lhs in sc.bools:
            sc.kill(lhs)
        sc.arrs[lhs] = length
        return [["assign", lhs, None, rhs, [], self.s(rhs, ["var", lhs])]]

    def op_elem_loop(self, sc):
        """Element writes: y[i] = expr [i=lo..hi], nested loops, zero-/one-trip, bounds in variables."""
        rng = self.rng
        if not sc.arrs:
            return None
        a = rng.choice(sorted(sc.arrs))
        n = sc.arrs[a]
        kind = rng.random()
        c = rng.choice(self.counters)
        if kind < 0.15:
            lo, hi = rng.choice([(0, 0), (1, 1), (2, 1)])          # zero-trip
        elif kind < 0.3:
            lo = rng.randrange(n)
            hi = lo + 1                                            # one-trip
        else:
            lo = rng.randrange(n)
            hi = rng.randint(lo, n)
        lo_e, hi_e = ["num", lo], ["num", hi]
        pre = []
        if (self.tag_calls and rng.random() < 0.3) or rng.random() < 0.05:
            # the upper bound is what a user function returns ('for i in [lo, <func>n3(1))'): a call that is made
            # while the loop header is evaluated
            fname = f"<func>n{hi}"
            if fname not in self.funcs:
                self.funcs[fname] = {"kind": "count", "args": ["a0"], "coef": [hi, 0], "nres": 1}
            c_ = self._mkcall(fname, [["num", rng.randint(0, 3)]])
            hi_e = c_
        elif rng.random() < 0.35:
            # bound held in a variable
            v = rng.choice(["n", "m", "k0"])
            sc.kill(v)
            pre.append(["assign", v, None, ["num", hi], [], self.s()])
            sc.ints.append(v)
            hi_e = ["var", v]
            if rng.random() < 0.4:
                # ... and the lower bound too ('[i=lo..hi]' with both in variables)
                lv = rng.choice([x for x in ["n", "m", "k0"] if x != v])
                sc.kill(lv)
                pre.append(["assign", lv, None, ["num", lo], [], self.s()])
                sc.ints.append(lv)
                lo_e = ["var", lv]
        sc2 = sc.copy()
        sc2.counters[c] = (lo, hi)
        loops = [[c, lo_e, hi_e]]
        sub = self.index_for(sc2, n) if rng.random() < 0.3 else ["var", c]
        if sub[0] == "var" and sub[1] == c and not (0 <= lo and hi <= n):
            sub = ["num", 0]
        if rng.random() < 0.25:
            c2 = rng.choice([x for x in self.counters if x != c])
            lo2 = rng.randint(0, 1)
            hi2 = rng.randint(lo2, lo2 + 2)
            inner_lo = ["num", lo2] if rng.random() < 0.7 or lo > lo2 else ["var", c]
            loops.append([c2, ["num", lo2], ["num", hi2]])
            sc2.counters[c2] = (lo2, hi2)
        if rng.random() < 0.4:
            val = ["+", ["sub", ["var", a], sub], self.nosum(self.num_expr(sc2, 1), sc2)]   # self-dependent element update
        else:
            val = self.num_expr(sc2, rng.choice([0, 1, 2]))
        return pre + [["assign", a, sub, val, loops, self.s(val, sub, ["var", a])]]

    def op_scalar_loop(self, sc, persist):
        """Looped assignment to a SCALAR: accumulation over a counter, 'w <- w + 0.25*i [i=0..n]'
        (real operand before the integer counter and the mirrored spelling)."""
        rng = self.rng
        c = rng.choice(self.counters)
        lo = rng.randint(0, 1)
        hi = rng.choice([lo, lo + 1, lo + 3, 4])
        cands = [n for n in sc.nums if n not in ("<t>", "<dt>") and n not in sc.ints
                 and not n.startswith("$fresh") and not n.startswith("<cond>")
                 and n not in self.readonly_state]
        if persist and rng.random() < 0.4:
            cands = [n for n in persist["nums"] if n in sc.nums] or cands
        if not cands:
            return None
        w = rng.choice(cands)
        k = ["num", rng.choice([0.25, 0.5, 1.5, -0.5])]
        if rng.random() < 0.3:
            # two loops and a recurrence that does not commute: the order of the nest is observable
            c2 = rng.choice([x for x in self.counters if x != c])
            lo2 = rng.randint(0, 1)
            hi2 = lo2 + rng.choice([1, 2, 3])
            hi = max(hi, lo + 2)
            term = ["+", ["var", c], ["*", ["num", 2], ["var", c2]]]
            rhs = rng.choice([["+", ["*", ["num", 0.5], ["var", w]], term], ["-", term, ["var", w]]])
            inner_hi = ["num", hi2] if rng.random() < 0.7 else ["+", ["var", c], ["num", 1]]
            return [["assign", w, None, rhs, [[c, ["num", lo], ["num", hi]], [c2, ["num", lo2], inner_hi]], self.s(rhs)]]
        term = rng.choice([["*", k, ["var", c]], ["*", ["var", c], k], ["/", ["var", c], ["num", 4]]])
        if rng.random() < 0.7:
            rhs = ["+", ["var", w], term]
        else:
            rhs = term                      # last trip wins; a zero-trip loop leaves w alone
        return [["assign", w, None, rhs, [[c, ["num", lo], ["num", hi]]], self.s(rhs)]]

    def op_stencil_pair(self, sc, persist=None):
        """Two looped element assignments with the same counter and bounds, one directly after the other; the
        second reads elements the first writes in OTHER iterations (reversed / shifted index)."""
        rng = self.rng
        n = rng.choice([2, 3, 4])
        a, b = rng.sample(ARR_NAMES, 2)
        for v in (a, b):
            sc.kill(v)
        c = rng.choice(self.counters)
        ops = [["call", [b], "<builtin>array", [["num", n]], {}, self.s()],
               ["call", [a], "<builtin>array", [["num", n]], {}, self.s()]]
        if rng.random() < 0.5:
            ops.reverse()
        k = ["num", rng.choice([1, 1.5, -0.5, 2])]
        first = rng.choice([["+", ["var", c], k], ["*", k, ["+", ["var", c], ["num", 1]]]])
        idx = rng.choice([["-", ["num", n - 1], ["var", c]], ["num", n - 1], ["num", 0]])
        second = ["sub", ["var", a], idx]
        if rng.random() < 0.5:
            second = ["+", second, ["*", ["num", 0.5], ["var", c]]]
        if self.tag_calls or rng.random() < 0.3:
            # the first loop calls a user function in every trip (a fault site per iteration) ...
            first = ["+", self.ucall_scalar(sc, 1), ["var", c]]
        ops.append(["assign", a, ["var", c], first, [[c, ["num", 0], ["num", n]]], self.s(first)])
        cands = [x for x, l in (persist or {}).get("arrs", {}).items() if l == n and x in sc.arrs]
        if cands and rng.random() < 0.6:
            # ... and the second loop, over the same range, updates a PERSISTENT array element by element from it
            pa = rng.choice(cands)
            upd = ["+", ["sub", ["var", pa], ["var", c]], ["*", ["var", "<dt>"], ["sub", ["var", a], ["var", c]]]]
            ops.pop(0) if ops[0][1] == [b] else ops.pop(1)      # (no local b needed)
            ops.append(["assign", pa, ["var", c], upd, [[c, ["num", 0], ["num", n]]], self.s(upd)])
            sc.arrs[a] = n
            return ops
        ops.append(["assign", b, ["var", c], second, [[c, ["num", 0], ["num", n]]], self.s(second)])
        sc.arrs[a] = n
        sc.arrs[b] = n
        return ops

    def op_extreme_array(self, sc, persist):
        """An array holding infinities of both signs (and no NaN), or a NaN, tested with isnan():
        'a[i] <- 1e308*(1 - i); b <- 10*a; if isnan(b): ... else: ...'."""
        rng = self.rng
        a, b = rng.sample(ARR_NAMES, 2)
        for v in (a, b):
            sc.kill(v)
        c = rng.choice(self.counters)
        big = ["num", 1e308]
        elem = rng.choice([["*", big, ["-", ["num", 1], ["var", c]]],            # [1e308, 0, -1e308]
                           ["*", big, ["-", ["var", c], ["num", 1]]],
                           ["*", big, ["+", ["var", c], ["num", 1]]]])           # one sign only
        ops = [["call", [a], "<builtin>array", [["num", 3]], {}, 0],
               ["assign", a, ["var", c], elem, [[c, ["num", 0], ["num", 3]]], 0]]
        how = rng.choice(["scale", "scale", "diff"])
        if how == "scale":
            ops.append(["assign", b, None, ["*", ["num", 10], ["var", a]], [], 0])       # +-inf, no NaN
        else:
            ops.append(["assign", b, None, ["-", ["*", ["num", 10], ["var", a]], ["*", ["num", 10], ["var", a]]], [], 0])
        sc.arrs[a] = 3
        sc.arrs[b] = 3
        tgt = rng.choice(persist["nums"]) if persist else self.new_local(sc, LOCAL_NAMES)
        if tgt in sc.arrs or tgt in sc.bools or tgt in sc.counters:
            sc.kill(tgt)
        self.ban_like("<cond>")
        ops.append(["if", self.bcall("<builtin>isnan", [["var", b]]),
                    [["assign", tgt, None, ["+", self.num_leaf(sc), ["num", 7]], [], 0]], [],
                    [["assign", tgt, None, ["+", self.num_leaf(sc), ["num", 11]], [], 0]], 0])
        if tgt not in sc.nums:
            sc.nums.append(tgt)
        if tgt in sc.ints:
            sc.ints.remove(tgt)
        # the arrays hold non-finite values: keep them out of later arithmetic
        sc.kill(a)
        sc.kill(b)
        return ops

    def op_flag_block(self, sc, persist):
        """'if flag:' on a BARE variable whose block clears / re-assigns that very variable and goes on."""
        rng = self.rng
        flag = rng.choice(["flag", "ok", "startup"])
        sc.kill(flag)
        ops = [["assign", flag, None, ["cmp", rng.choice(["<", ">"]), self.num_expr(sc, 1), self.num_expr(sc, 1)],
                [], self.s()]]
        tgt = rng.choice(persist["nums"]) if persist and rng.random() < 0.7 else self.new_local(sc, LOCAL_NAMES)
        if tgt in sc.arrs or tgt in sc.bools or tgt in sc.counters:
            sc.kill(tgt)
        then = [["assign", flag, None, ["cmp", "<", ["num", 1], ["num", 0]], [], 0]]
        if rng.random() < 0.3:
            then.insert(0, ["assign", tgt, None, ["+", self.num_leaf(sc), ["num", 10]], [], self.s()])
        then.append(["assign", tgt, None, ["+", self.num_leaf(sc), ["num", 100]], [], self.s()])
        if rng.random() < 0.5:
            then.append(self.op_yield(sc))
        els = None
        if rng.random() < 0.6:
            els = [["assign", tgt, None, ["+", self.num_leaf(sc), ["num", 1]], [], self.s()]]
            if rng.random() < 0.3:
                els.insert(0, ["assign", flag, None, ["cmp", "<", ["num", 0], ["num", 1]], [], 0])
        self.ban_like("<cond>")
        ops.append(["if", ["var", flag], then, [], els, 0])
        if tgt not in sc.nums:
            if els is not None:
                sc.nums.append(tgt)
        if tgt in sc.ints:
            sc.ints.remove(tgt)
        sc.bools.append(flag)
        return ops

    def op_computed_index(self, sc):
        """A subscript whose index is an ordinary (non-loop) variable that is assigned before and re-assigned
        after the read: 'idx <- 1; x <- a[idx]; idx <- 0'."""
        rng = self.rng
        if not sc.arrs:
            return None
        a = rng.choice(sorted(sc.arrs))
        n = sc.arrs[a]
        idx = rng.choice(["n", "m", "k0"])
        sc.kill(idx)
        i1, i2 = rng.randrange(n), rng.randrange(n)
        x = self.new_local(sc, LOCAL_NAMES)
        if x in sc.arrs or x in sc.bools or x in sc.counters:
            sc.kill(x)
        ops = [["assign", idx, None, ["num", i1], [], self.s()]]
        read = ["sub", ["var", a], ["var", idx]]
        q = rng.random()
        if q < 0.5:
            ops.append(["assign", x, None, rng.choice([read, ["+", read, self.num_leaf(sc)]]), [], self.s()])
            if x not in sc.nums:
                sc.nums.append(x)
        elif q < 0.75:
            self.ban_like("<cond>")
            body = [self.op_assign_num(sc.copy(), None)]
            ops.append(["if", ["cmp", rng.choice(["<", ">"]), read, self.num_leaf(sc)], body, [], None, 0])
        else:
            f = self.func("scalar")
            sp = self.funcs[f]
            if sp.get("nres", 1) == 1:
                c = self._mkcall(f, [read] + [self.num_leaf(sc) for _ in sp["args"][1:]])
                ops.append(["call", [x], c[1], c[2], c[3], 0])
            else:
                ops.append(["assign", x, None, read, [], 0])
            if x not in sc.nums:
                sc.nums.append(x)
        ops.append(["assign", idx, None, ["num", i2], [], self.s()])
        sc.ints.append(idx)
        return ops

    def op_elem_write(self, sc):
        rng = self.rng
        if not sc.arrs:
            return None
        a = rng.choice(sorted(sc.arrs))
        n = sc.arrs[a]
        if sc.ints and rng.random() < 0.0:
            pass
        sub = ["num", rng.randrange(n)]
        pre = []
        if rng.random() < 0.4:
            v = rng.choice(["n", "m", "k0"])
            sc.kill(v)
            pre.append(["assign", v, None, ["num", sub[1]], [], self.s()])
            sc.ints.append(v)
            sub = ["var", v]
        val = self.num_expr(sc, 1)
        if val[0] == "call":
            # a bare call as right-hand side makes the builder emit a call statement,
            # which only takes plain variables as assignees
            val = ["*", ["num", 2], val]
        return pre + [["assign", a, sub, val, [], self.s(val, sub, ["var", a])]]

    def op_call_stmt(self, sc, persist):
        """Call statement (AssignFunctionCall), incl. multi-result user functions."""
        rng = self.rng
        r = rng.random()
        if self.containers and rng.random() < 0.3:
            # container-valued arguments (tuple / list of expressions), as the parser produces for
            # '<func>f((a, 2*b), [c])'; the function adds everything up
            f = "<func>bag"
            if f not in self.funcs:
                self.funcs[f] = {"kind": "bag", "args": ["a0", "a1"], "coef": [0.5, 1, 2], "nres": 1}
            def cont():
                items = [self.num_expr(sc, rng.choice([0, 0, 1])) for _ in range(rng.choice([2, 2, 3]))]
                return [rng.choice(["tuple", "list"])] + items
            call = self._mkcall(f, [cont(), cont() if rng.random() < 0.5 else self.num_expr(sc, 1)])
            lhs = rng.choice(persist["nums"]) if persist and rng.random() < 0.3 else self.new_local(sc, LOCAL_NAMES)
            sc.kill(lhs)
            sc.nums.append(lhs)
            return ["call", [lhs], call[1], call[2], call[3], self.s(*(call[2] + list(call[3].values())))]
        if r < 0.35 and self.multi_result:
            nres = rng.choice([2, 3])
            f = self.func("scalar", nres=nres)
            na = len(self.funcs[f]["args"])
            call = self._mkcall(f, [self.num_expr(sc, 1) for _ in range(na)])
            lhss = []
            for _ in range(nres):
                n = self.new_local(sc, LOCAL_NAMES)
                tries = 0
                while n in lhss:
                    tries += 1
                    n = self.new_local(sc, LOCAL_NAMES) if tries < 20 else f"res_{len(lhss)}"
                lhss.append(n)
            for n in lhss:
                sc.kill(n)
                sc.nums.append(n)
            return ["call", lhss, call[1], call[2], call[3], self.s(*(call[2] + list(call[3].values())))]
        if r < 0.7 or not sc.arrs:
            f = self.func("scalar")
            na = len(self.funcs[f]["args"])
            call = self._mkcall(f, [self.num_expr(sc, 1) for _ in range(na)])
            lhs = rng.choice(persist["nums"]) if persist and rng.random() < 0.3 else self.new_local(sc, LOCAL_NAMES)
            sc.kill(lhs)
            sc.nums.append(lhs)
            return ["call", [lhs], call[1], call[2], call[3], self.s(*(call[2] + list(call[3].values())))]
        a = rng.choice(sorted(sc.arrs))
        call = self.ucall_vec(sc, 1, a)
        length = sc.arrs[a]
        lhs = self.new_local(sc, ARR_NAMES)
        if persist and rng.random() < 0.3:
            cands = [x for x, l in persist["arrs"].items() if l == length]
            if cands:
                lhs = rng.choice(cands)
        sc.kill(lhs)
        sc.arrs[lhs] = length
        return ["call", [lhs], call[1], call[2], call[3], self.s(*(call[2] + list(call[3].values())))]

    def op_yield(self, sc):
        rng = self.rng
        if sc.arrs and rng.random() < 0.4:
            a = rng.choice(sorted(sc.arrs))
            expr = ["var", a] if rng.random() < 0.6 else self.arr_expr(sc, 1, sc.arrs[a])
        else:
            expr = self.num_expr(sc, rng.choice([0, 1, 2]))
        time = rng.choice([["var", "<t>"], ["+", ["var", "<t>"], ["var", "<dt>"]], ["num", 0],
                           ["*", ["num", 0.5], ["var", "<dt>"]]])
        locs = [n for n in sc.nums if not n.startswith("<") and not n.startswith("$")]
        if locs and rng.random() < self.local_time_bias:
            # the time of the yield is held in a per-step temporary ('t_out <- <t> + <dt>/2; yield ... at t_out')
            time = ["var", rng.choice(locs)] if rng.random() < 0.6 else ["+", ["var", "<t>"], ["var", rng.choice(locs)]]
        return ["yield", expr, rng.choice(self.components), time, rng.choice(["final", "t0", "mid_1"]),
                self.s(expr)]

    def op_reject_idiom(self, sc, persist, phase_names, cur):
        """'if c1: { if c2: fail_step()/switch/raise;  <p>nrejN <- e }': the update follows the exit of the nested
        block and is the FIRST mention of its persistent target."""
        self.nrej = getattr(self, "nrej", 0) + 1
        name = f"<p>nrej{self.nrej}{self.persist_tag}"
        c1, c2 = self.bool_expr(sc, 1), self.bool_expr(sc, 1)
        self.ban_like("<cond>")
        inner = ["if", c2, [self.op_end(phase_names, cur)], [], None, self.s(c2)]
        upd = ["assign", name, None, self.num_expr(sc, 1), [], 0]
        return [["if", c1, [inner, upd], [], None, self.s(c1)]]

    def op_end(self, phase_names, cur):
        rng = self.rng
        r = rng.random()
        if r < 0.35:
            return ["fail"]
        if r < 0.65:
            return ["switch", rng.choice(phase_names)]
        if r < 0.8:
            return ["restart"]
        return ["raise", rng.choice(ERRS), rng.choice(["boom", "step too  small", None])]

    def body(self, sc, persist, phase_names, cur, budget, depth, in_cond):
        rng = self.rng
        ops = []
        if depth == 0 and rng.random() < 0.2:
            # the builder is asked for a name before the user's variables exist
            self.fresh_id += 1
            alias = f"$fresh{self.fresh_id}"
            self.ban_like("scratch")
            ops += [["fresh", "scratch", alias], ["assign", alias, None, self.num_leaf(sc), [], 0]]
            sc.nums.append(alias)
        while budget[0] > 0:
            budget[0] -= 1
            r = rng.random()
            new = None
            if r < 0.24:
                new = [self.op_assign_num(sc, persist)]
            elif r < 0.30:
                new = [self.op_assign_int(sc)]
            elif r < 0.34:
                new = [self.op_assign_bool(sc)]
            elif r < 0.42:
                new = self.op_new_array(sc, persist)
            elif r < 0.49:
                new = self.op_assign_arr(sc, persist)
            elif r < 0.57:
                new = self.op_elem_loop(sc)
            elif r < 0.58:
                new = self.op_elem_write(sc)
            elif r < 0.595:
                new = self.op_scalar_loop(sc, persist)
            elif r < 0.635:
                q = rng.random()
                new = (self.op_stencil_pair(sc, persist) if q < self.stencil_bias else
                       self.op_flag_block(sc, persist) if q < 0.55 else
                       self.op_reject_idiom(sc, persist, phase_names, cur) if (q < 0.67 and self.allow_end) else
                       self.op_extreme_array(sc, persist) if q < 0.76 else self.op_computed_index(sc))
            elif r < 0.69:
                new = [self.op_call_stmt(sc, persist)]
            elif r < 0.79:
                new = [self.op_yield(sc)]
                if rng.random() < 0.25:
                    # the user asks the builder for a fresh name and uses it
                    self.fresh_id += 1
                    alias = f"$fresh{self.fresh_id}"
                    rhs = self.num_expr(sc, 1)
                    pref = rng.choice(["temp", "tmp", "x", "y", "<cond>"])
                    mine = sorted(n for n in self.used_names if n in LOCAL_NAMES)
                    if mine and rng.random() < 0.6:
                        # a prefix the user's own statements already use (perhaps only since the builder's
                        # first request for a name)
                        pref = rng.choice(mine)
                    # (no NEW assignment to the prefix or its numbered variants after the request: 'used' also holds
                    # names that were drawn for statements which were dropped, so the builder may well issue the
                    # bare prefix -- a later hand-written assignment to it would be the user's collision)
                    self.ban_like(pref, force=True)
                    new = [["fresh", pref, alias],
                           ["assign", alias, None, rhs, [], 0]] + new
                    sc.nums.append(alias)
            elif r < 0.93 and depth < 3:
                cond = self.bool_expr(sc, rng.choice([0, 1, 1, 2]))
                self.ban_like("<cond>")
                sc_then = sc.copy()
                nb = [max(1, min(budget[0], rng.randint(1, 4)))]
                budget[0] -= nb[0]
                then = self.body(sc_then, persist, phase_names, cur, nb, depth + 1, True)
                between = []
                els = None
                if rng.random() < 0.5:
                    if rng.random() < 0.25 and budget[0] > 0:
                        budget[0] -= 1
                        between = [self.op_assign_num(sc, persist)]
                        # a variable re-assigned between the blocks may have another kind now
                        sc_then.kill(between[0][1])
                        sc_then.nums.append(between[0][1])
                    sc_else = sc.copy()
                    nb = [max(1, min(budget[0], rng.randint(1, 3)))]
                    budget[0] -= nb[0]
                    els = self.body(sc_else, persist, phase_names, cur, nb, depth + 1, True)
                    sc.meet(sc_then, sc_else)
                # (no else: nothing new is definitely assigned)
                else:
                    keep = sc.copy()
                    sc.meet(keep, sc_then) if False else None
                    # variables whose kind changed inside the block are no longer reliable
                    for n in list(sc.nums):
                        if n not in sc_then.nums:
                            sc.kill(n)
                    for n in list(sc.arrs):
                        if sc_then.arrs.get(n) != sc.arrs[n]:
                            sc.kill(n)
                    for n in list(sc.bools):
                        if n not in sc_then.bools:
                            sc.kill(n)
                    for n in list(sc.ints):
                        if n not in sc_then.ints:
                            sc.kill(n)
                if cond[0] == "cmp" and rng.random() < 0.3:
                    new = [["if", cond, then, between, els, 3, self.s(cond)]]
                else:
                    new = [["if", cond, then, between, els, self.s(cond)]]
            elif self.allow_end and (in_cond or rng.random() < 0.15):
                new = [self.op_end(phase_names, cur)]
                ops += new
                if not in_cond:
                    break
                continue
            if new:
                ops += new
        return ops

    # }}}

    def script(self):
        rng = self.rng
        nph = self.nphases or rng.choice([1, 1, 2, 2, 3])
        if self.phase_plan:
            names = [n for n, _ in self.phase_plan]
            nph = len(names)
        else:
            names = rng.sample(["main", "init", "primary", "bootstrap_2", "P"], nph)
        tg = self.persist_tag
        persist = {"nums": [n + tg for n in ["<state>s", "<p>k", "<state>Y"][:rng.randint(1, 3)]], "arrs": {}}
        if self.persistent_arrays:
            for a in rng.sample(["<state>v", "<p>w"], rng.randint(0, 2)):
                persist["arrs"][a + tg] = rng.choice([2, 3])
        state = {}
        for n in persist["nums"] + self.readonly_state:
            if n.startswith("<state>"):
                state[n[7:]] = rng.choice([1.5, -0.5, 2.0, 0.25, 3])
        for a, l in persist["arrs"].items():
            if a.startswith("<state>"):
                state[a[7:]] = ["array", [rng.choice([1.0, 2.0, -0.5, 0.25, 1.5]) for _ in range(l)]]
        phases = []
        for pi, name in enumerate(names):
            sc = Scope(nums=["<t>", "<dt>"] + [n for n in persist["nums"]] + self.readonly_state,
                       arrs=dict(persist["arrs"]))
            body = []
            if pi == 0:
                # <p> variables are assigned at the top of the initial phase
                for n in persist["nums"]:
                    if n.startswith("<p>"):
                        body.append(["assign", n, None, self.const(), [], 0])
                for a, l in persist["arrs"].items():
                    if a.startswith("<p>"):
                        body.append(["call", [a], "<builtin>array", [["num", l]], {}, 0])
                        body.append(["assign", a, ["var", "i"], ["*", ["num", 0.5], ["var", "i"]],
                                     [["i", ["num", 0], ["num", l]]], 0])
            budget = [rng.randint(1, self.max_ops)]
            self.used_cond = set()
            self.used_names = set()
            self.banned = set()
            body += self.body(sc, persist, names, name, budget, 0, False)
            # advance time at the end of most phases so that t_end-bounded runs terminate
            if self.advance_time and rng.random() < 0.8:
                body.append(["assign", "<t>", None, ["+", ["var", "<t>"], ["var", "<dt>"]], [], self.s()])
            nxt = dict(self.phase_plan)[name] if self.phase_plan else rng.choice(names)
            phases.append({"name": name, "next": nxt, "body": body})
        # only state components the program mentions are handed to set_up
        used = set()
        for ph in phases:
            all_names(ph["body"], used)
        state = {k: v for k, v in state.items() if "<state>" + k in used}
        run = ({"max_steps": rng.randint(1, 5)} if rng.random() < 0.7
               else {"t_end": rng.choice([1.0, 2.0, 0.5])})
        t0 = rng.choice([0.0, 0.5, 1])
        if rng.random() < 0.12:
            # runs that end at time zero (integration up to the origin, or a run of no steps at all), bounded
            # by a step count as well
            run = {"t_end": rng.choice([0, 0.0]), "max_steps": rng.randint(2, 6)}
            t0 = rng.choice([-1.0, -0.5, -0.5, 0.0, 0.5])
        return {"phases": phases, "initial": names[0], "state": state, "t0": t0,
                "dt0": rng.choice([0.5, 0.25, 1.0]), "funcs": self.funcs, "run": run, "event_cap": 60}


# {{{ replay through the real builder

class BuildObserver:
    """Observes the real CodeBuilder while a script is replayed (C02 (iii))."""

    def __init__(self):
        self.user_names = set()
        self.issued = []          # fresh names handed out by the builder
        self.collisions = []


def op_names(op, acc):
    k = op[0]
    if k == "assign":
        acc.add(op[1])
        if op[2] is not None:
            variables(op[2], acc)
        variables(op[3], acc)
        for c, lo, hi in op[4]:
            acc.add(c)
            variables(lo, acc)
            variables(hi, acc)
    elif k == "call":
        acc.update(op[1])
        for a in op[3]:
            variables(a, acc)
        for v in op[4].values():
            variables(v, acc)
    elif k == "if":
        variables(op[1], acc)
    elif k == "yield":
        variables(op[1], acc)
        variables(op[3], acc)


def all_names(ops, acc):
    for op in ops:
        op_names(op, acc)
        if op[0] == "if":
            all_names(op[2], acc)
            all_names(op[3], acc)
            if op[4] is not None:
                all_names(op[4], acc)


def _arg(e, s):
    if s and srcable(e):
        return to_src(e, left_products=True)
    return to_pym(e)


def subst_names(e, amap):
    if not amap or not isinstance(e, list):
        return e
    k = e[0]
    if k == "var":
        return ["var", amap.get(e[1], e[1])]
    if k in ("num", "cnum", "bool"):
        return e
    if k == "cmp":
        return ["cmp", e[1], subst_names(e[2], amap), subst_names(e[3], amap)]
    if k == "call":
        return ["call", e[1], [subst_names(x, amap) for x in e[2]],
                {n: subst_names(v, amap) for n, v in (e[3] if len(e) > 3 else {}).items()}]
    return [k] + [subst_names(x, amap) for x in e[1:]]


def subst_op(op, amap):
    if not amap:
        return op
    k = op[0]
    if k == "assign":
        return ["assign", amap.get(op[1], op[1]), subst_names(op[2], amap) if op[2] is not None else None,
                subst_names(op[3], amap),
                [[c, subst_names(lo, amap), subst_names(hi, amap)] for c, lo, hi in op[4]]] + list(op[5:])
    if k == "call":
        return ["call", [amap.get(n, n) for n in op[1]], op[2], [subst_names(a, amap) for a in op[3]],
                {n: subst_names(v, amap) for n, v in op[4].items()}] + list(op[5:])
    if k == "if":
        return ["if", subst_names(op[1], amap)] + list(op[2:])
    if k == "yield":
        return ["yield", subst_names(op[1], amap), op[2], subst_names(op[3], amap)] + list(op[4:])
    return op


def replay_ops(cb, ops, obs, errs, amap=None):
    from dagrt.expression import parse
    if amap is None:
        amap = {}
    for op in ops:
        k = op[0]
        if k == "fresh":
            name = cb.fresh_var_name(op[1])
            if obs is not None:
                if name in obs.user_names:
                    obs.collisions.append(name)
                obs.issued.append(name)
            amap[op[2]] = name
            continue
        op = subst_op(op, amap)
        s = op[-1] if k in ("assign", "call", "if", "yield") else 0
        if obs is not None:
            op_names(op, obs.user_names)
        if k == "assign":
            _, lhs, sub, rhs, loops = op[:5]
            import pymbolic.primitives as p
            if s and srcable(["var", lhs]) and (sub is None or srcable(sub)):
                from vf.sexpr import name_src
                lhs_arg = name_src(lhs) + ("" if sub is None else f"[{to_src(sub)}]")
            else:
                lhs_arg = p.Variable(lhs) if sub is None else p.Subscript(p.Variable(lhs), to_pym(sub))
            lp = [(c, _arg(lo, s), _arg(hi, s)) for c, lo, hi in loops]
            cb.assign(lhs_arg, _arg(rhs, s), loops=lp or None)
        elif k == "call":
            _, lhss, fname, args, kw = op[:5]
            import pymbolic.primitives as p
            call = ["call", fname, args, kw]
            cb.assign(tuple(p.Variable(n) for n in lhss), _arg(call, s))
        elif k == "if":
            _, cond, then, between, els = op[:5]
            if cond[0] == "cmp" and len(op) > 6 and op[5] == 3:
                # three-argument form if_(lhs, op, rhs)
                cm = cb.if_(_arg(cond[2], s), cond[1], _arg(cond[3], s))
            else:
                cm = cb.if_(_arg(cond, s))
            with cm:
                if obs is not None:
                    flag = cb._conditional_expression_stack[-1]
                    nm = getattr(flag, "name", None)
                    obs.issued.append(nm)
                    if nm in obs.user_names:
                        obs.collisions.append(nm)
                replay_ops(cb, then, obs, errs, amap)
            replay_ops(cb, between, obs, errs, amap)
            if els is not None:
                with cb.else_():
                    replay_ops(cb, els, obs, errs, amap)
        elif k == "yield":
            _, expr, comp, time, time_id = op[:5]
            cb.yield_state(_arg(expr, s), comp, to_pym(time), time_id)
        elif k == "fail":
            cb.fail_step()
        elif k == "switch":
            cb.switch_phase(op[1])
        elif k == "restart":
            cb.restart_step()
        elif k == "raise":
            cb.raise_(errs[op[1]], op[2])
        else:
            raise ValueError(op)


class _Errs(dict):
    """Error classes for `raise` ops: own classes (named like the requested
    error) so that a program Raise can be told from an accidental exception."""

    def __missing__(self, k):
        v = type(k, (Exception,), {"_vf_program_error": True})
        self[k] = v
        return v


def build(script, obs=None):
    """Replay the script through the real CodeBuilder; returns the DAGCode."""
    from dagrt.language import CodeBuilder, DAGCode
    errs = _Errs()
    phases = []
    for ph in script["phases"]:
        # ("shared_ids": every phase is written with a builder of the SAME name, so the phases' statement ids
        # coincide -- ids only have to be unique within a phase)
        body = ph["body"]
        if script.get("shared_ids"):
            # (restart_step() switches to the BUILDER's name; written out with the phase's name here)
            def named(ops):
                out = []
                for op in ops:
                    if op[0] == "restart":
                        op = ["switch", ph["name"]]
                    elif op[0] == "if":
                        op = [op[0], op[1], named(op[2]), named(op[3]), None if op[4] is None else named(op[4])] \
                            + list(op[5:])
                    out.append(op)
                return out
            body = named(body)
        with CodeBuilder("step" if script.get("shared_ids") else ph["name"]) as cb:
            if script.get("snapshots") and len(body) >= 2:
                # the statements written so far are turned into a phase midway (a short and a long variant of a
                # phase that share a prefix are written like this); the snapshot itself is not used
                amap = {}
                h = max(1, len(body) // 2)
                replay_ops(cb, body[:h], obs, errs, amap)
                cb.as_execution_phase(ph["next"])
                replay_ops(cb, body[h:], obs, errs, amap)
            else:
                replay_ops(cb, body, obs, errs, {})
            if obs is not None:
                obs.aliases = getattr(obs, "aliases", {})
        if script.get("shared_ids"):
            from dagrt.language import ExecutionPhase
            phases.append(ExecutionPhase(ph["name"], ph["next"], frozenset(cb.statements)))
        else:
            phases.append(cb.as_execution_phase(ph["next"]))
    return DAGCode.from_phases_list(phases, script["initial"])


def python_functions(script, wrap=None):
    """Function map for the Python backends from the script's specs (same
    semantics as vf.rseq.user_function, implemented with numpy broadcasting)."""
    out = {}
    for name, spec in script.get("funcs", {}).items():
        out[name] = make_py_function(name, spec, wrap)
    return out


def make_py_function(name, spec, wrap=None):
    names = spec["args"]
    coef = spec["coef"]
    nres = spec.get("nres", 1)

    def flat(v):
        if isinstance(v, (tuple, list)):
            tot = 0
            for x in v:
                tot = tot + flat(x)
            return tot
        return v

    def f(*args, **kw):
        tag = kw.pop("tag", None)
        if wrap is not None:
            wrap(name, tag)
        if spec.get("kind") == "bag":
            args = tuple(flat(a) for a in args)
            kw = {n: flat(v) for n, v in kw.items()}
        vals = list(args)
        for n in names[len(args):]:
            vals.append(kw.pop(n))
        assert not kw and len(vals) == len(names)
        res = []
        for k in range(nres):
            acc = coef[0] + k
            for c, v in zip(coef[1:], vals):
                acc = acc + c * v
            res.append(acc)
        return res[0] if nres == 1 else tuple(res)
    return f

# }}}


def stats(script):
    """Features for the non-triviality rule."""
    kinds = set()
    n = [0]
    cond = [0]

    def walk(ops):
        for op in ops:
            n[0] += 1
            kinds.add(op[0])
            if op[0] == "if":
                cond[0] += 1
                walk(op[2])
                walk(op[3])
                if op[4] is not None:
                    walk(op[4])
            elif op[0] == "assign" and op[4]:
                cond[0] += 1
                kinds.add("loop")
    for ph in script["phases"]:
        walk(ph["body"])
    return {"ops": n[0], "kinds": sorted(kinds), "control": cond[0], "phases": len(script["phases"])}
