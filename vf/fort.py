"""gfortran build/run helpers.  Scratch directories live under /dev/shm (or
$TMPDIR) and are removed in a finally; nothing persists."""
import os
import shutil
import subprocess
import tempfile

FC = os.environ.get("FC", "gfortran")


def have_gfortran():
    return shutil.which(FC) is not None


def have_valgrind():
    return shutil.which("valgrind") is not None


class Scratch:
    def __init__(self, prefix="vf-"):
        base = "/dev/shm" if os.path.isdir("/dev/shm") and os.access("/dev/shm", os.W_OK) else None
        self.dir = tempfile.mkdtemp(prefix=prefix, dir=base)

    def __enter__(self):
        return self.dir

    def __exit__(self, *a):
        shutil.rmtree(self.dir, ignore_errors=True)


def compile_(workdir, sources, exe="a.out", flags=(), libs=(), timeout=120):
    """sources: list of (filename, text), compiled in that order."""
    names = []
    for n, t in sources:
        with open(os.path.join(workdir, n), "w") as f:
            f.write(t)
        names.append(n)
    cmd = [FC, "-o", exe] + list(flags) + names + ["-l" + x for x in libs]
    try:
        p = subprocess.run(cmd, cwd=workdir, capture_output=True, text=True, timeout=timeout)
    except subprocess.TimeoutExpired:
        return None, "compile timeout"
    return p.returncode, (p.stdout + p.stderr)


def run(workdir, exe="a.out", env=None, timeout=60, prefix=()):
    e = dict(os.environ)
    if env:
        e.update(env)
    try:
        p = subprocess.run(list(prefix) + [os.path.join(workdir, exe)], cwd=workdir,
                           capture_output=True, text=True, timeout=timeout, env=e,
                           errors="replace")
    except subprocess.TimeoutExpired:
        return None, "", "run timeout"
    return p.returncode, p.stdout, p.stderr


SAN_FLAGS = ["-O0", "-g", "-fcheck=bounds,do,mem,pointer", "-fsanitize=address,undefined",
             "-fno-sanitize-recover=all", "-fno-omit-frame-pointer"]
PLAIN_FLAGS = ["-O0", "-g", "-fcheck=bounds,do,mem,pointer"]
SAN_ENV = {"ASAN_OPTIONS": "detect_leaks=1:halt_on_error=1:abort_on_error=0:exitcode=23",
           "UBSAN_OPTIONS": "halt_on_error=1:print_stacktrace=1:exitcode=24",
           "LSAN_OPTIONS": "exitcode=25"}
