"""S-expressions: the JSON-serialisable expression form used by the workload
generators and the reference models.  Independent of dagrt; `to_pym` is the
only bridge into pymbolic (used to feed the real code), `to_src` prints the
string form handed to dagrt's own parser, `ev` is the independent evaluator.

  ["num", v] | ["cnum", re, im] | ["var", name]
  ["+", a, b, ...] | ["*", a, b, ...] | ["-", a, b] | ["neg", a] | ["/", a, b] | ["**", a, b]
  ["cmp", op, a, b] | ["and", ...] | ["or", ...] | ["not", a]
  ["if", c, t, e] | ["call", fname, [args], {kw: arg}] | ["sub", aggregate-expr, idx]
  ["min", a, b] | ["max", a, b]
"""
import math
import operator

import numpy as np


class Undefined(Exception):
    """The reference semantics leaves this case undefined (excluded, never a
    violation): reason in args[0]."""


# {{{ to pymbolic

def to_pym(e):
    import pymbolic.primitives as p
    k = e[0]
    if k in ("num", "bool"):
        return e[1]
    if k == "cnum":
        return complex(e[1], e[2])
    if k == "var":
        return p.Variable(e[1])
    if k == "+":
        return p.Sum(tuple(to_pym(x) for x in e[1:]))
    if k == "*":
        return p.Product(tuple(to_pym(x) for x in e[1:]))
    if k == "-":
        return p.Sum((to_pym(e[1]), p.Product((-1, to_pym(e[2])))))
    if k == "neg":
        return p.Product((-1, to_pym(e[1])))
    if k == "/":
        return p.Quotient(to_pym(e[1]), to_pym(e[2]))
    if k == "**":
        return p.Power(to_pym(e[1]), to_pym(e[2]))
    if k == "cmp":
        return p.Comparison(to_pym(e[2]), e[1], to_pym(e[3]))
    if k == "and":
        return p.LogicalAnd(tuple(to_pym(x) for x in e[1:]))
    if k == "or":
        return p.LogicalOr(tuple(to_pym(x) for x in e[1:]))
    if k == "not":
        return p.LogicalNot(to_pym(e[1]))
    if k == "if":
        return p.If(to_pym(e[1]), to_pym(e[2]), to_pym(e[3]))
    if k == "call":
        args = tuple(to_pym(x) for x in e[2])
        kw = e[3] if len(e) > 3 else {}
        if kw:
            from immutabledict import immutabledict
            return p.CallWithKwargs(p.Variable(e[1]), args,
                                    immutabledict({n: to_pym(v) for n, v in kw.items()}))
        return p.Call(p.Variable(e[1]), args)
    if k == "sub":
        return p.Subscript(to_pym(e[1]), to_pym(e[2]))
    if k == "msub":
        return p.Subscript(to_pym(e[1]), tuple(to_pym(x) for x in e[2:]))
    if k == "min":
        return p.Min(tuple(to_pym(x) for x in e[1:]))
    if k == "max":
        return p.Max(tuple(to_pym(x) for x in e[1:]))
    if k == "lookup":
        return p.Lookup(to_pym(e[1]), e[2])          # attribute lookup: y.real
    if k == "tuple":
        return tuple(to_pym(x) for x in e[1:])       # containers of expressions (call arguments, yields)
    if k == "list":
        return [to_pym(x) for x in e[1:]]
    raise ValueError(f"bad sexpr {e!r}")

# }}}


# {{{ to source text for dagrt.expression.parse (fully parenthesised)

import re
_PLAIN = re.compile(r"^[A-Za-z_][A-Za-z0-9_]*$")
_TAGGED = re.compile(r"^<[A-Za-z_][A-Za-z0-9_]*>[A-Za-z_][A-Za-z0-9_]*$|^<(t|dt)>$")
_BACKTICKABLE = re.compile(r"^[<>:a-zA-Z0-9_]*$")


def name_src(n):
    if _PLAIN.match(n) and n not in ("if", "else", "and", "or", "not", "d"):
        return n
    if _BACKTICKABLE.match(n):
        return "`" + n + "`"
    raise ValueError(f"name {n!r} cannot be written in source form")


def srcable(e):
    try:
        to_src(e)
        return True
    except ValueError:
        return False


def num_src(v):
    if isinstance(v, bool):
        raise ValueError("bool literal")
    if isinstance(v, int):
        return str(v) if v >= 0 else f"({v})"
    if v != v or v in (float("inf"), float("-inf")):
        raise ValueError("non-finite literal")
    s = repr(float(v))
    return s if v >= 0 else f"({s})"


def to_src(e, left_products=False):
    """left_products: write a product of three or more factors as ((a * b) * c).  dagrt's parser reads 'a * b * c'
    as a*(b*c) while generated code and the flattened right-hand side of an Assign multiply from the left; the
    two differ in rounding only (and at overflow), which is outside every property here."""
    if left_products and e[0] == "*" and len(e) > 3:
        return to_src(["*", ["*"] + list(e[1:-1]), e[-1]], True)
    if left_products:
        return _to_src_rec(e, lambda x: to_src(x, True))
    return _to_src_rec(e, to_src)


def _to_src_rec(e, to_src):
    k = e[0]
    if k == "num":
        return num_src(e[1])
    if k == "cnum":
        raise ValueError("complex literal")
    if k == "var":
        return name_src(e[1])
    if k in ("+", "*"):
        return "(" + f" {k} ".join(to_src(x) for x in e[1:]) + ")"
    if k == "-":
        return f"({to_src(e[1])} - {to_src(e[2])})"
    if k == "neg":
        return f"(-{to_src(e[1])})"
    if k == "/":
        return f"({to_src(e[1])} / {to_src(e[2])})"
    if k == "**":
        return f"({to_src(e[1])} ** {to_src(e[2])})"
    if k == "cmp":
        return f"({to_src(e[2])} {e[1]} {to_src(e[3])})"
    if k in ("and", "or"):
        return "(" + f" {k} ".join(to_src(x) for x in e[1:]) + ")"
    if k == "not":
        return f"(not {to_src(e[1])})"
    if k == "if":
        return f"({to_src(e[2])} if {to_src(e[1])} else {to_src(e[3])})"
    if k == "call":
        parts = [to_src(x) for x in e[2]]
        kw = e[3] if len(e) > 3 else {}
        parts += [f"{n}={to_src(v)}" for n, v in kw.items()]
        return f"{name_src(e[1])}({', '.join(parts)})"
    if k == "sub":
        return f"{to_src(e[1])}[{to_src(e[2])}]"
    if k == "lookup" and e[1][0] == "var":
        return f"{to_src(e[1])}.{e[2]}"
    if k == "tuple" and len(e) > 2:
        return "(" + ", ".join(to_src(x) for x in e[1:]) + ")"
    if k == "list":
        return "[" + ", ".join(to_src(x) for x in e[1:]) + "]"
    raise ValueError(f"no source form for {k}")

# }}}


def variables(e, acc=None, funcs=None):
    if acc is None:
        acc = set()
    k = e[0]
    if k in ("num", "cnum", "bool"):
        return acc
    if k == "var":
        acc.add(e[1])
    elif k == "cmp":
        variables(e[2], acc, funcs)
        variables(e[3], acc, funcs)
    elif k == "call":
        if funcs is not None:
            funcs.add(e[1])
        for x in e[2]:
            variables(x, acc, funcs)
        for v in (e[3] if len(e) > 3 else {}).values():
            variables(v, acc, funcs)
    else:
        for x in e[1:]:
            variables(x, acc, funcs)
    return acc


def size(e):
    k = e[0]
    if k in ("num", "cnum", "var", "bool"):
        return 1
    if k == "cmp":
        return 1 + size(e[2]) + size(e[3])
    if k == "call":
        return 1 + sum(size(x) for x in e[2]) + sum(size(v) for v in (e[3] if len(e) > 3 else {}).values())
    return 1 + sum(size(x) for x in e[1:])


def has(e, kinds):
    k = e[0]
    if k in kinds:
        return True
    if k in ("num", "cnum", "var", "bool"):
        return False
    if k == "cmp":
        return has(e[2], kinds) or has(e[3], kinds)
    if k == "call":
        return any(has(x, kinds) for x in e[2]) or any(
            has(v, kinds) for v in (e[3] if len(e) > 3 else {}).values())
    return any(has(x, kinds) for x in e[1:])


# {{{ independent evaluator

_CMP = {"<": operator.lt, "<=": operator.le, ">": operator.gt, ">=": operator.ge,
        "==": operator.eq, "!=": operator.ne}


def is_boolish(v):
    return isinstance(v, (bool, np.bool_))


def is_num(v):
    from fractions import Fraction
    return isinstance(v, (int, float, complex, np.number, Fraction)) and not is_boolish(v)


class Env:
    """Variable store for the evaluator.  lookup(name) must raise Undefined for
    unassigned names; `whole_array_read(arr)` lets the owner veto reads of
    arrays with undefined elements."""

    def __init__(self, store, funcs, on_read=None, elem_defined=None, on_call=None, numconv=None):
        self.numconv = numconv
        self.store = store
        self.funcs = funcs
        self.on_read = on_read
        self.elem_defined = elem_defined
        self.on_call = on_call

    def lookup(self, name):
        if name not in self.store:
            raise Undefined("read-unassigned")
        if self.on_read:
            self.on_read(name)
        return self.store[name]


def ev(e, env, whole=True):
    """Evaluate.  whole=True: the value is consumed as a whole (arrays must be
    fully defined)."""
    k = e[0]
    if k == "num":
        return env.numconv(e[1]) if env.numconv is not None else e[1]
    if k == "bool":
        return e[1]
    if k == "cnum":
        return complex(e[1], e[2])
    if k == "var":
        v = env.lookup(e[1])
        if whole and isinstance(v, np.ndarray) and env.elem_defined is not None:
            if not env.elem_defined(v, None):
                raise Undefined("read-array-with-undefined-elements")
        return v
    if k in ("+", "*"):
        vals = [ev(x, env) for x in e[1:]]
        for v in vals:
            if is_boolish(v):
                raise Undefined("arithmetic-on-flag")
        acc = vals[0]
        op = operator.add if k == "+" else operator.mul
        for v in vals[1:]:
            acc = _arith(op, acc, v)
        return acc
    if k == "-":
        a, b = ev(e[1], env), ev(e[2], env)
        if is_boolish(a) or is_boolish(b):
            raise Undefined("arithmetic-on-flag")
        return _arith(operator.add, a, _arith(operator.mul, -1, b))
    if k == "neg":
        a = ev(e[1], env)
        if is_boolish(a):
            raise Undefined("arithmetic-on-flag")
        return _arith(operator.mul, -1, a)
    if k == "/":
        a, b = ev(e[1], env), ev(e[2], env)
        if is_boolish(a) or is_boolish(b):
            raise Undefined("arithmetic-on-flag")
        if isinstance(b, np.ndarray):
            if np.any(b == 0):
                raise Undefined("division-by-zero")
        elif b == 0:
            raise Undefined("division-by-zero")
        return _arith(operator.truediv, a, b)
    if k == "**":
        a, b = ev(e[1], env), ev(e[2], env)
        if is_boolish(a) or is_boolish(b):
            raise Undefined("arithmetic-on-flag")
        if isinstance(b, np.ndarray):
            raise Undefined("array-exponent")
        if env.numconv is not None:
            # exact mode: only integral exponents of moderate size stay exact
            if isinstance(a, np.ndarray) or abs(b) > 64:
                raise Undefined("inexact-power")
            if b != int(b):
                if not getattr(env, "decimal_powers", False) or isinstance(a, complex) or isinstance(b, complex):
                    raise Undefined("inexact-power")
                # a rational that agrees with the true power to 60 digits (all other arithmetic stays exact, so
                # two ways of writing the same expression differ by ~1e-60 even after heavy cancellation)
                import decimal
                from fractions import Fraction
                if a < 0:
                    raise Undefined("fractional-power-of-negative")
                if a == 0:
                    if b < 0:
                        raise Undefined("division-by-zero")
                    return Fraction(0)
                ctx = decimal.Context(prec=60)
                fa, fb = Fraction(a), Fraction(b)
                da = ctx.divide(decimal.Decimal(fa.numerator), decimal.Decimal(fa.denominator))
                db = ctx.divide(decimal.Decimal(fb.numerator), decimal.Decimal(fb.denominator))
                try:
                    return Fraction(ctx.power(da, db))
                except decimal.DecimalException:
                    raise Undefined("overflow")
            b = int(b)
            if isinstance(a, int):
                from fractions import Fraction
                a = Fraction(a)
            if a == 0 and b < 0:
                raise Undefined("division-by-zero")
            return a ** b
        bc = isinstance(b, (complex, np.complexfloating)) or isinstance(b, np.ndarray)
        if bc:
            # complex or array exponent: defined unless the base has a zero (0**(complex) is 0 or nan)
            if np.any(np.asarray(a) == 0):
                raise Undefined("zero-to-complex-or-array-power")
        elif not isinstance(a, np.ndarray):
            if a == 0 and b < 0:
                raise Undefined("division-by-zero")
            if isinstance(a, (int, float, np.floating, np.integer)) and a < 0 and b != int(b):
                raise Undefined("fractional-power-of-negative")
        elif b < 0 and np.any(a == 0):
            raise Undefined("division-by-zero")
        try:
            return _arith(operator.pow, a, b)
        except OverflowError:
            raise Undefined("overflow")
    if k == "cmp":
        a, b = ev(e[2], env), ev(e[3], env)
        if isinstance(a, np.ndarray) or isinstance(b, np.ndarray):
            raise Undefined("array-comparison")
        if isinstance(a, complex) or isinstance(b, complex):
            if e[1] not in ("==", "!="):
                raise Undefined("complex-ordering")
        return bool(_CMP[e[1]](a, b))
    if k == "and":
        for x in e[1:]:
            v = ev(x, env)
            if not is_boolish(v):
                raise Undefined("non-boolean-in-logical")
            if not v:
                return False
        return True
    if k == "or":
        for x in e[1:]:
            v = ev(x, env)
            if not is_boolish(v):
                raise Undefined("non-boolean-in-logical")
            if v:
                return True
        return False
    if k == "not":
        v = ev(e[1], env)
        if not is_boolish(v):
            raise Undefined("non-boolean-in-logical")
        return not v
    if k == "if":
        c = ev(e[1], env)
        if not is_boolish(c):
            raise Undefined("non-boolean-in-logical")
        return ev(e[2], env, whole) if c else ev(e[3], env, whole)
    if k == "call":
        f = env.funcs.get(e[1])
        if f is None:
            raise Undefined("unknown-function")
        args = [ev(x, env) for x in e[2]]
        kw = {n: ev(v, env) for n, v in (e[3] if len(e) > 3 else {}).items()}
        if env.on_call:
            env.on_call(e[1], args, kw)
        return f(*args, **kw)
    if k == "sub":
        agg = ev(e[1], env, whole=False)
        idx = ev(e[2], env)
        if not isinstance(agg, np.ndarray):
            raise Undefined("subscript-of-non-array")
        if is_boolish(idx) or not is_num(idx) or isinstance(idx, complex) or idx != int(idx):
            raise Undefined("non-integral-subscript")
        if getattr(env, "strict_int_index", False) and not isinstance(idx, (int, np.integer)):
            raise Undefined("non-int-typed-subscript")
        idx = int(idx)
        if not (0 <= idx < len(agg)):
            raise Undefined("subscript-out-of-range")
        if env.elem_defined is not None and not env.elem_defined(agg, idx):
            raise Undefined("read-undefined-array-element")
        return agg[idx]
    if k == "msub":
        agg = ev(e[1], env, whole=False)
        idx = [ev(x, env) for x in e[2:]]
        if not isinstance(agg, np.ndarray) or agg.ndim != len(idx):
            raise Undefined("subscript-of-non-array")
        for i, n in zip(idx, agg.shape):
            if is_boolish(i) or not is_num(i) or isinstance(i, complex) or i != int(i) or not 0 <= int(i) < n:
                raise Undefined("subscript-out-of-range")
        return agg[tuple(int(i) for i in idx)]
    if k in ("min", "max"):
        vals = [ev(x, env) for x in e[1:]]
        for v in vals:
            if isinstance(v, np.ndarray) or isinstance(v, complex) or is_boolish(v):
                raise Undefined("min-max-operand")
        return min(vals) if k == "min" else max(vals)
    if k == "lookup":
        v = ev(e[1], env)
        if e[2] not in ("real", "imag") or is_boolish(v) or not (is_num(v) or isinstance(v, np.ndarray)):
            raise Undefined("lookup-of-unsupported-attribute")
        return getattr(v, e[2])
    if k == "tuple":
        return tuple(ev(x, env) for x in e[1:])
    if k == "list":
        return [ev(x, env) for x in e[1:]]
    raise ValueError(f"bad sexpr {e!r}")


def _arith(op, a, b):
    if isinstance(a, np.ndarray) and isinstance(b, np.ndarray) and a.shape != b.shape:
        raise Undefined("array-shape-mismatch")
    try:
        with np.errstate(all="ignore"):
            return op(a, b)
    except ZeroDivisionError:
        raise Undefined("division-by-zero")
    except OverflowError:
        raise Undefined("overflow")

# }}}


def values_equal(a, b, rtol=1e-9, atol=0.0):
    """Comparison used by all differential monitors: NaN==NaN, inf==inf,
    arrays elementwise, bool vs number kept apart."""
    if a is None or b is None:
        return a is None and b is None
    if isinstance(a, str) or isinstance(b, str):
        return a == b
    if is_boolish(a) != is_boolish(b):
        return False
    if is_boolish(a):
        return bool(a) == bool(b)
    aa, ba = isinstance(a, np.ndarray), isinstance(b, np.ndarray)
    if aa != ba:
        # 0-d results vs scalars are the same thing; 1-d arrays are not scalars
        if aa and a.ndim == 0:
            a = a.item()
        elif ba and b.ndim == 0:
            b = b.item()
        else:
            return False
        aa = ba = False
    try:
        if aa:
            if a.shape != b.shape:
                return False
            if a.dtype == object or b.dtype == object:
                return all(values_equal(x, y, rtol, atol) for x, y in zip(a.ravel(), b.ravel()))
            # normwise: an element may differ by rtol times the LARGEST finite magnitude of the two arrays
            # (cancellation in matmul / linear_solve / sums leaves residues like -3e-17 where the exact
            # result is 0); non-finite entries must match exactly
            with np.errstate(all="ignore"):
                mags = np.concatenate([np.abs(a).ravel(), np.abs(b).ravel()]).astype(float)
                mags = mags[np.isfinite(mags)]
                scale = float(mags.max()) if mags.size else 0.0
                return bool(np.allclose(a, b, rtol=0.0, atol=atol + rtol * scale, equal_nan=True))
        if isinstance(a, (tuple, list)) and isinstance(b, (tuple, list)):
            return len(a) == len(b) and all(values_equal(x, y, rtol, atol) for x, y in zip(a, b))
        if isinstance(a, int) and isinstance(b, int):
            return a == b           # (exact; Python ints may exceed the float range)
        a = complex(a)
        b = complex(b)
    except (TypeError, ValueError):
        return a == b
    except OverflowError:
        # a huge exact integer against a float: equal only if the float is the matching infinity
        try:
            fa = float(a) if not isinstance(a, int) else (math.inf if a > 0 else -math.inf)
            fb = float(b) if not isinstance(b, int) else (math.inf if b > 0 else -math.inf)
            return fa == fb
        except Exception:
            return False

    def close(x, y):
        if math.isnan(x) or math.isnan(y):
            return math.isnan(x) and math.isnan(y)
        if math.isinf(x) or math.isinf(y):
            return x == y
        return abs(x - y) <= atol + rtol * max(abs(x), abs(y))
    return close(a.real, b.real) and close(a.imag, b.imag)


def jsonable(v):
    if isinstance(v, np.ndarray):
        return ["array", [jsonable(x) for x in v.tolist()]]
    if isinstance(v, (np.bool_, bool)):
        return bool(v)
    if isinstance(v, (np.integer,)):
        return int(v)
    if isinstance(v, (np.floating, float)):
        v = float(v)
        if v != v:
            return "nan"
        if v in (float("inf"), float("-inf")):
            return "inf" if v > 0 else "-inf"
        return v
    if isinstance(v, (complex, np.complexfloating)):
        return ["complex", jsonable(v.real), jsonable(v.imag)]
    if isinstance(v, (tuple, list)):
        return [jsonable(x) for x in v]
    if isinstance(v, dict):
        return {str(k): jsonable(x) for k, x in v.items()}
    if v is None or isinstance(v, (int, str)):
        return v
    return repr(v)


def from_jsonable(v):
    if isinstance(v, list):
        if v and v[0] == "array":
            xs = [from_jsonable(x) for x in v[1]]
            if any(isinstance(x, complex) for x in xs):
                return np.array(xs, dtype=complex)
            return np.array(xs, dtype=float)
        if v and v[0] == "complex":
            return complex(from_jsonable(v[1]), from_jsonable(v[2]))
        return [from_jsonable(x) for x in v]
    if v == "nan":
        return float("nan")
    if v == "inf":
        return float("inf")
    if v == "-inf":
        return float("-inf")
    return v


# {{{ pymbolic -> sexpr (own isinstance dispatch; used to observe what the real
# code returns without going through a pymbolic mapper)

def from_pym(x):
    import pymbolic.primitives as p
    if isinstance(x, (bool, np.bool_)):
        return ["bool", bool(x)]
    if isinstance(x, (int, np.integer)):
        return ["num", int(x)]
    if isinstance(x, (float, np.floating)):
        return ["num", float(x)]
    if isinstance(x, (complex, np.complexfloating)):
        return ["cnum", float(x.real), float(x.imag)]
    if isinstance(x, p.Variable):
        return ["var", x.name]
    if isinstance(x, p.Sum):
        return ["+"] + [from_pym(c) for c in x.children]
    if isinstance(x, p.Product):
        return ["*"] + [from_pym(c) for c in x.children]
    if isinstance(x, p.Quotient):
        return ["/", from_pym(x.numerator), from_pym(x.denominator)]
    if isinstance(x, p.Power):
        return ["**", from_pym(x.base), from_pym(x.exponent)]
    if isinstance(x, p.Comparison):
        return ["cmp", x.operator, from_pym(x.left), from_pym(x.right)]
    if isinstance(x, p.LogicalAnd):
        return ["and"] + [from_pym(c) for c in x.children]
    if isinstance(x, p.LogicalOr):
        return ["or"] + [from_pym(c) for c in x.children]
    if isinstance(x, p.LogicalNot):
        return ["not", from_pym(x.child)]
    if isinstance(x, p.If):
        return ["if", from_pym(x.condition), from_pym(x.then), from_pym(x.else_)]
    if isinstance(x, p.CallWithKwargs):
        return ["call", _fname(x.function), [from_pym(a) for a in x.parameters],
                {k: from_pym(v) for k, v in x.kw_parameters.items()}]
    if isinstance(x, p.Call):
        return ["call", _fname(x.function), [from_pym(a) for a in x.parameters], {}]
    if isinstance(x, p.Subscript):
        idx = x.index
        if isinstance(idx, tuple):
            if len(idx) != 1:
                return ["msub", from_pym(x.aggregate)] + [from_pym(i) for i in idx]
            idx = idx[0]
        return ["sub", from_pym(x.aggregate), from_pym(idx)]
    if isinstance(x, p.Lookup):
        return ["lookup", from_pym(x.aggregate), x.name]
    if isinstance(x, tuple):
        return ["tuple"] + [from_pym(c) for c in x]
    if isinstance(x, list):
        return ["list"] + [from_pym(c) for c in x]
    if isinstance(x, p.Min):
        return ["min"] + [from_pym(c) for c in x.children]
    if isinstance(x, p.Max):
        return ["max"] + [from_pym(c) for c in x.children]
    raise ValueError(f"from_pym: unsupported node {type(x).__name__}: {x!r}")


def _fname(f):
    import pymbolic.primitives as p
    if isinstance(f, p.Variable):
        return f.name
    raise ValueError(f"call of non-symbol {f!r}")

# }}}


class UFuncs:
    """Function table of hash-based *uninterpreted* pure functions: the same
    (salt, name, args, kwargs) always gives the same small integer."""

    def __init__(self, salt, log=None):
        self.salt = salt
        self.log = log

    def get(self, name, default=None):
        def f(*args, **kw):
            import hashlib
            key = repr((self.salt, name, tuple(_hkey(a) for a in args),
                        tuple(sorted((k, _hkey(v)) for k, v in kw.items()))))
            v = int.from_bytes(hashlib.blake2b(key.encode(), digest_size=4).digest(), "big") % 997 + 2
            if name.endswith("slot"):
                v = v % 3          # (a function whose result is usable as a subscript)
            if self.log is not None:
                self.log.append((name, tuple(_hkey(a) for a in args),
                                 tuple(sorted((k, _hkey(v)) for k, v in kw.items()))))
            return v
        return f


def _hkey(v):
    if isinstance(v, np.ndarray):
        return ("arr",) + tuple(_hkey(x) for x in v.tolist())
    if is_boolish(v):
        return ("b", bool(v))
    if isinstance(v, (int, np.integer)):
        return ("n", float(v))
    import fractions
    if isinstance(v, fractions.Fraction):
        try:
            return ("n", float("%.12g" % (float(v) + 0.0)))
        except OverflowError:
            return ("o", repr(v))
    if isinstance(v, (float, np.floating)):
        # -0.0 and 0.0 are one value, and values that differ in the last bits are one value: the passes
        # re-associate products/sums (Assign flattens its right-hand side), which moves the last ulp
        return ("n", float("%.12g" % (float(v) + 0.0)))
    if isinstance(v, (complex, np.complexfloating)):
        return ("c", float("%.12g" % v.real), float("%.12g" % v.imag))
    return ("o", repr(v))


# {{{ generic subtree minimiser (bounded greedy delta debugging on sexprs)

def children_paths(e):
    k = e[0]
    if k in ("num", "cnum", "var", "bool"):
        return []
    if k == "cmp":
        return [(2,), (3,)]
    if k == "call":
        return [(2, i) for i in range(len(e[2]))] + [(3, n) for n in (e[3] if len(e) > 3 else {})]
    return [(i,) for i in range(1, len(e))]


def get_at(e, path):
    for p in path:
        e = e[p]
    return e


def set_at(e, path, new):
    if not path:
        return new
    e = list(e) if isinstance(e, list) else dict(e)
    e[path[0]] = set_at(e[path[0]], path[1:], new)
    return e


def minimise(e, fails, budget=200, leaves=(["var", "x"], ["num", 2])):
    """Smallest sub-expression / leaf-substituted variant on which fails() is
    still true (same reason code is the caller's business)."""
    n = [0]

    def f(x):
        n[0] += 1
        if n[0] > budget:
            return False
        try:
            return bool(fails(x))
        except Exception:
            return False
    changed = True
    while changed and n[0] <= budget:
        changed = False
        for path in children_paths(e):
            sub = get_at(e, path)
            if isinstance(sub, list) and f(sub):
                e = sub
                changed = True
                break
        if changed:
            continue
        for path in children_paths(e):
            sub = get_at(e, path)
            if not isinstance(sub, list) or sub[0] in ("num", "var", "cnum", "bool"):
                continue
            for leaf in leaves:
                cand = set_at(e, path, leaf)
                if f(cand):
                    e = cand
                    changed = True
                    break
            if changed:
                break
            # descend: try minimising the child in place
            for gpath in children_paths(sub):
                g = get_at(sub, gpath)
                if isinstance(g, list):
                    cand = set_at(e, path, g)
                    if f(cand):
                        e = cand
                        changed = True
                        break
            if changed:
                break
    return e

# }}}


class LinFuncs:
    """Function table for exact (Fraction) evaluation: every function is an
    affine map with small hashed rational coefficients per (name, argument
    position / keyword), so it separates argument order, keyword names and
    values without amplifying re-association."""

    def __init__(self, salt):
        self.salt = salt

    def _c(self, *key):
        import hashlib
        from fractions import Fraction
        h = int.from_bytes(hashlib.blake2b(repr((self.salt,) + key).encode(), digest_size=2).digest(), "big")
        return Fraction(h % 13 + 1, 2)

    def get(self, name, default=None):
        def f(*args, **kw):
            acc = self._c(name, "c0")
            for i, a in enumerate(args):
                acc = acc + self._c(name, i) * _tot(a)
            for k, v in kw.items():
                acc = acc + self._c(name, "kw", k) * _tot(v)
            return acc
        return f


def _tot(v):
    if isinstance(v, np.ndarray):
        t = 0
        for i, x in enumerate(v.ravel().tolist()):
            t = t + (i + 1) * x
        return t
    if is_boolish(v):
        return 3 if v else 5
    return v
